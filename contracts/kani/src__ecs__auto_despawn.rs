//! Kani contracts for src/ecs/auto_despawn.rs (appended as child module `verif_contracts`).
use super::*;

/// constructor for contract modules of other files (AutoDespawner::new is private to this file)
pub(crate) fn new_despawner() -> AutoDespawner { AutoDespawner::new() }

fn world_with_despawner() -> World { let mut w = World::new(); w.insert_resource(AutoDespawner::new()); w }
#[derive(Component)] struct Tag(u8);

// ---------------------------------------------------------------------------------------------------------------
// K.autodespawn.refcount: an entity prepared for auto-despawn is never despawned while a clone of its signal exists and
// is despawned, with its descendants, by the FIRST collection after the last clone is dropped; collection is idempotent
// (C10, C07).  Shape: one prepared entity with one child, CLONES in {1,2,3} clones dropped one by one with a collection
// after each drop (all sequential orders of drop/collect for k clones are this one up to commuting collections).
// ---------------------------------------------------------------------------------------------------------------
fn refcount_contract<const CLONES: usize>() {
    let mut world = world_with_despawner();
    let parent = world.spawn(Tag(1)).id();
    let child = world.spawn(Tag(2)).id();
    world.set_parent(child, parent);
    let bystander = world.spawn(Tag(3)).id();
    let first = world.resource::<AutoDespawner>().prepare(parent);
    assert!(first.entity() == parent, "AutoDespawner::prepare: the signal stands for the prepared entity");
    let mut held: [Option<AutoDespawnSignal>; 3] = [None, None, None];
    let mut i = 1;
    while i < CLONES { held[i] = Some(first.clone()); i += 1; }
    held[0] = Some(first);
    garbage_collect_entities(&mut world);
    assert!(world.verif_is_alive(parent) && world.verif_is_alive(child), "auto-despawn: never despawned while a clone of the signal exists");
    let mut i = 0;
    while i < CLONES {
        let s = held[i].take();
        assert!(s.as_ref().unwrap().entity() == parent, "AutoDespawnSignal::clone: a clone stands for the same entity");
        drop(s);
        garbage_collect_entities(&mut world);
        if i + 1 < CLONES { assert!(world.verif_is_alive(parent) && world.verif_is_alive(child), "auto-despawn: never despawned while a clone of the signal exists"); }
        else { assert!(!world.verif_is_alive(parent) && !world.verif_is_alive(child), "auto-despawn: despawned with its descendants by the first collection after the last clone is dropped"); }
        i += 1;
    }
    garbage_collect_entities(&mut world);
    assert!(world.verif_is_alive(bystander), "garbage_collect_entities: idempotent, other entities untouched");
    assert!(world.resource::<AutoDespawner>().try_recv().is_none(), "garbage_collect_entities: drains the channel");
    core::mem::forget(world);
}
//# id=K.autodespawn.refcount.c1 props=C10,C07 strength=complete shape="1 signal, parent+child" tier=off fns=AutoDespawner::prepare,AutoDespawnSignal::clone,garbage_collect_entities,AutoDespawnSignalInner::drop
#[kani::proof] #[kani::unwind(6)] fn k_autodespawn_refcount_c1() { refcount_contract::<1>(); }
//# id=K.autodespawn.refcount.c2 props=C10,C07 strength=bounded shape="2 clones, parent+child, collection after each drop" tier=off fns=AutoDespawner::prepare,AutoDespawnSignal::clone,garbage_collect_entities,AutoDespawnSignalInner::drop
#[kani::proof] #[kani::unwind(6)] fn k_autodespawn_refcount_c2() { refcount_contract::<2>(); }
//# id=K.autodespawn.refcount.c3 props=C10,C07 strength=bounded shape="3 clones, parent+child, collection after each drop" tier=off fns=AutoDespawner::prepare,AutoDespawnSignal::clone,garbage_collect_entities,AutoDespawnSignalInner::drop
#[kani::proof] #[kani::unwind(6)] fn k_autodespawn_refcount_c3() { refcount_contract::<3>(); }

// ---------------------------------------------------------------------------------------------------------------
// K.autodespawn.collect_all: ONE collection handles EVERY pending request: entities already gone (despawned by hand, or
// as a descendant of an earlier request) are skipped without stopping the collection and without panicking (C10, C07, C18).
// Shape: two prepared entities a,b whose signals are dropped in the order a,b; which of them is already dead: one harness each.
// ---------------------------------------------------------------------------------------------------------------
fn collect_all_contract<const DA: bool, const DB: bool>() {
    let mut world = world_with_despawner();
    let a = world.spawn_empty().id();
    let b = world.spawn_empty().id();
    let sa = world.resource::<AutoDespawner>().prepare(a);
    let sb = world.resource::<AutoDespawner>().prepare(b);
    if DA { world.despawn(a); }
    if DB { world.despawn(b); }
    drop(sa); drop(sb);
    garbage_collect_entities(&mut world);
    assert!(!world.verif_is_alive(a) && !world.verif_is_alive(b),
        "garbage_collect_entities: the first collection after the last drop despawns EVERY pending entity; entities already gone are ignored");
    assert!(world.resource::<AutoDespawner>().try_recv().is_none(), "garbage_collect_entities: drains the channel");
    core::mem::forget(world);
}
//# id=K.autodespawn.collect_all.first_dead props=C10,C07,C18 strength=bounded shape="2 pending requests, the first entity already despawned by hand" tier=off fns=garbage_collect_entities,AutoDespawner::try_recv
#[kani::proof] #[kani::unwind(6)] fn k_autodespawn_collect_all_first_dead() { collect_all_contract::<true, false>(); }
//# id=K.autodespawn.collect_all.none_dead props=C10,C07,C18 strength=bounded shape="2 pending requests, both entities alive" tier=off fns=garbage_collect_entities,AutoDespawner::try_recv
#[kani::proof] #[kani::unwind(6)] fn k_autodespawn_collect_all_none_dead() { collect_all_contract::<false, false>(); }
//# id=K.autodespawn.collect_all.both_dead props=C10,C07,C18 strength=bounded shape="2 pending requests, both entities already despawned" tier=off fns=garbage_collect_entities,AutoDespawner::try_recv
#[kani::proof] #[kani::unwind(6)] fn k_autodespawn_collect_all_both_dead() { collect_all_contract::<true, true>(); }

// ---------------------------------------------------------------------------------------------------------------
// K.autodespawn.signal: the reference count itself, without a World (C10, C07): the prepared entity's id is sent to the
// despawner EXACTLY ONCE, at the drop of the LAST clone of its signal, and never while a clone exists.
// Shape: CLONES in {1,2,3}; clones dropped one by one, the channel polled after every drop.  Real std::sync::Arc.
// ---------------------------------------------------------------------------------------------------------------
fn signal_contract<const CLONES: usize>() {
    let despawner = AutoDespawner::new();
    assert!(despawner.sender.verif_capacity().is_none(), "AutoDespawner::new: the request channel is unbounded (a despawn request is never lost or blocked, however many are pending)");
    let e = Entity::verif_new(kani::any(), kani::any());
    let other = Entity::verif_new(77, 1);
    let first = despawner.prepare(e);
    let bystander = despawner.prepare(other);
    assert!(first.entity() == e, "AutoDespawner::prepare: the signal stands for the prepared entity");
    let mut held: [Option<AutoDespawnSignal>; 5] = [None, None, None, None, None];
    let mut i = 1;
    while i < CLONES { held[i] = Some(first.clone()); i += 1; }
    held[0] = Some(first);
    assert!(despawner.try_recv().is_none(), "auto-despawn: nothing is requested while clones exist");
    let mut i = 0;
    while i < CLONES {
        let s = held[i].take();
        assert!(s.as_ref().unwrap().entity() == e, "AutoDespawnSignal::clone: a clone stands for the same entity");
        drop(s);
        let got = despawner.try_recv();
        if i + 1 < CLONES { assert!(got.is_none(), "auto-despawn: never requested while a clone of the signal exists"); }
        else { assert!(got == Some(e), "auto-despawn: requested when the LAST clone is dropped, for the prepared entity"); }
        i += 1;
    }
    assert!(despawner.try_recv().is_none(), "auto-despawn: requested exactly once");
    core::mem::forget(bystander);
    core::mem::forget(despawner);
}
//# id=K.autodespawn.signal.c1 props=C10,C07 strength=complete shape="1 signal, no clone; entity id symbolic" tier=quick fns=AutoDespawner::prepare,AutoDespawner::try_recv,AutoDespawnSignal::entity,AutoDespawnSignalInner::drop
#[kani::proof] #[kani::unwind(6)] fn k_autodespawn_signal_c1() { signal_contract::<1>(); }
//# id=K.autodespawn.signal.c2 props=C10,C07 strength=bounded shape="2 clones dropped one by one; entity id symbolic" tier=quick fns=AutoDespawner::prepare,AutoDespawner::try_recv,AutoDespawnSignal::clone,AutoDespawnSignalInner::drop
#[kani::proof] #[kani::unwind(6)] fn k_autodespawn_signal_c2() { signal_contract::<2>(); }
//# id=K.autodespawn.signal.c3 props=C10,C07 strength=bounded shape="3 clones dropped one by one; entity id symbolic" tier=quick fns=AutoDespawner::prepare,AutoDespawner::try_recv,AutoDespawnSignal::clone,AutoDespawnSignalInner::drop
#[kani::proof] #[kani::unwind(6)] fn k_autodespawn_signal_c3() { signal_contract::<3>(); }

// ---------------------------------------------------------------------------------------------------------------
// K.autodespawn.gc: garbage_collect_entities alone (C10, C07, C18): despawn requests are put on the channel directly (the
// signal's own drop is covered by K.autodespawn.signal); ONE collection handles EVERY pending request, skipping entities
// that are already gone without stopping, and drains the channel.
// Shape: 2 pending requests a, b (in that order); which of them is already despawned: one harness each.
// ---------------------------------------------------------------------------------------------------------------
fn gc_contract<const DA: bool, const DB: bool>() {
    let mut world = World::new();
    let despawner = AutoDespawner::new();
    let tx = despawner.sender.clone();
    world.insert_resource(despawner);
    let a = world.spawn_empty().id();
    let b = world.spawn_empty().id();
    let keep = world.spawn_empty().id();
    if DA { world.despawn(a); }
    if DB { world.despawn(b); }
    let _ = tx.send(a);
    let _ = tx.send(b);
    garbage_collect_entities(&mut world);
    assert!(!world.verif_is_alive(a) && !world.verif_is_alive(b),
        "garbage_collect_entities: one collection despawns EVERY requested entity; entities already gone are skipped without stopping the collection");
    assert!(world.verif_is_alive(keep), "garbage_collect_entities: entities that were not requested are untouched");
    assert!(world.resource::<AutoDespawner>().try_recv().is_none(), "garbage_collect_entities: drains the channel");
    core::mem::forget(tx); core::mem::forget(world);
}
//# id=K.autodespawn.gc.first_gone props=C10,C07,C18 strength=bounded shape="2 pending requests; the FIRST entity is already despawned" tier=off fns=garbage_collect_entities,AutoDespawner::try_recv
#[kani::proof] #[kani::unwind(4)] fn k_autodespawn_gc_first_gone() { gc_contract::<true, false>(); }
//# id=K.autodespawn.gc.none_gone props=C10,C07 strength=bounded shape="2 pending requests; both entities alive" tier=off fns=garbage_collect_entities,AutoDespawner::try_recv
#[kani::proof] #[kani::unwind(4)] fn k_autodespawn_gc_none_gone() { gc_contract::<false, false>(); }
//# id=K.autodespawn.signal.c5 props=C10,C07 strength=bounded shape="5 clones dropped one by one; entity id symbolic" tier=thorough fns=AutoDespawner::prepare,AutoDespawner::try_recv,AutoDespawnSignal::clone,AutoDespawnSignalInner::drop
#[kani::proof] #[kani::unwind(8)] fn k_autodespawn_signal_c5() { signal_contract::<5>(); }

// ---------------------------------------------------------------------------------------------------------------
// K.autodespawn.setup_twice: setup_auto_despawn is idempotent (C10): a second call (another plugin asking for it) must not
// replace the AutoDespawner - signals prepared before it stay connected to the channel that the collector drains.
// ---------------------------------------------------------------------------------------------------------------
//# id=K.autodespawn.setup_twice props=C10 strength=complete shape="setup, prepare a signal, setup again, drop the signal (entity id symbolic)" tier=quick fns=AutoDespawnAppExt::setup_auto_despawn,AutoDespawner::prepare,AutoDespawner::try_recv
#[kani::proof] #[kani::unwind(6)]
fn k_autodespawn_setup_twice() {
    let mut app = App::new();
    app.setup_auto_despawn();
    let e = Entity::verif_new(kani::any(), 1);
    let sig = app.world().resource::<AutoDespawner>().prepare(e);
    app.setup_auto_despawn();
    drop(sig);
    assert!(app.world().resource::<AutoDespawner>().try_recv() == Some(e), "setup_auto_despawn: a repeated setup keeps the existing despawner (signals prepared earlier are still collected)");
    core::mem::forget(app);
}
