//! Kani contracts for src/ecs/callbacks.rs (appended as child module `verif_contracts`).
use super::*;
use bevy::ecs::world::unsafe_world_cell::UnsafeWorldCell;

/// Observable trace of one run: the body, the cleanup, and the application of the body's deferred command each append a mark.
#[derive(Resource, Default)] pub(crate) struct Trace { pub(crate) marks: [u8; 8], pub(crate) n: usize }
impl Trace { fn push(&mut self, m: u8) { self.marks[self.n] = m; self.n += 1; } }
pub(crate) const BODY: u8 = 1; pub(crate) const CLEANUP: u8 = 2; pub(crate) const DEFERRED: u8 = 3; pub(crate) const INIT: u8 = 4;
fn mark(world: &mut World, m: u8) { world.resource_mut::<Trace>().push(m); }
fn cleanup_fn(world: &mut World) { mark(world, CLEANUP); }

/// A stub system (assumed `System` contract: run = run_unsafe + apply_deferred; exclusive run = body + flush) whose body
/// marks BODY, counts its own runs in `runs` (its private state), and defers `queued` probe commands that mark DEFERRED
/// when applied.  `exclusive` selects the code path of run_initialized_system.
pub(crate) struct Probe { pub(crate) exclusive: bool, pub(crate) queued: u8, pub(crate) runs: u32, pub(crate) inits: u32, pub(crate) pending: u8 }
impl Probe {
    fn body(&mut self, world: &mut World) -> u32 {
        self.runs += 1;
        mark(world, BODY);
        self.runs
    }
}
impl System for Probe {
    type In = ();
    type Out = u32;
    fn is_exclusive(&self) -> bool { self.exclusive }
    unsafe fn run_unsafe(&mut self, _: (), world: UnsafeWorldCell) -> u32 {
        let w = unsafe { world.verif_world_mut() };
        self.pending = self.queued;               // non-exclusive: commands go to the system's own buffer
        self.body(w)
    }
    fn run(&mut self, _: (), world: &mut World) -> u32 {
        if self.exclusive {
            // exclusive system: commands go to the world queue; Bevy flushes after the body
            let out = self.body(world);
            let mut k = 0;
            while k < self.queued { world.commands().queue(|w: &mut World| mark(w, DEFERRED)); k += 1; }
            world.flush();
            out
        } else {
            let cell = world.as_unsafe_world_cell();
            let out = unsafe { self.run_unsafe((), cell) };
            self.apply_deferred(world);
            out
        }
    }
    fn apply_deferred(&mut self, world: &mut World) {
        world.flush();
        while self.pending > 0 { mark(world, DEFERRED); self.pending -= 1; }
    }
    fn initialize(&mut self, world: &mut World) { self.inits += 1; mark(world, INIT); }
    fn update_archetype_component_access(&mut self, _: UnsafeWorldCell) {}
}

pub(crate) fn assert_trace(world: &World, expect: &[u8], what: &'static str) {
    let t = world.resource::<Trace>();
    let _ = what;
    assert!(t.n == expect.len(), "trace of the run (INIT? BODY CLEANUP DEFERRED*): cleanup exactly once, after the body, before the deferred commands; initialize only on the first run");
    let mut i = 0;
    while i < expect.len() { assert!(t.marks[i] == expect[i], "trace of the run (INIT? BODY CLEANUP DEFERRED*): cleanup exactly once, after the body, before the deferred commands; initialize only on the first run"); i += 1; }
}

// ---------------------------------------------------------------------------------------------------------------
// K.callbacks.run_initialized: run_initialized_system(world, sys, input, cleanup) invokes `cleanup` exactly once, AFTER the
// system body and BEFORE the first command deferred by the body is applied - for exclusive and non-exclusive systems - and
// returns the body's output (C04).  Shape: exclusive / non-exclusive x {0,2} deferred commands (one harness each).
// ---------------------------------------------------------------------------------------------------------------
fn run_initialized_contract<const EXCLUSIVE: bool, const QUEUED: u8>() {
    let mut world = World::new();
    world.init_resource::<Trace>();
    let mut sys = Probe { exclusive: EXCLUSIVE, queued: QUEUED, runs: 0, inits: 0, pending: 0 };
    let out = run_initialized_system(&mut world, &mut sys, (), cleanup_fn);
    assert!(out == 1, "run_initialized_system: returns the output of the system body (run once)");
    const WHAT: &str = "run_initialized_system: cleanup runs exactly once, after the body and before the body's deferred commands";
    match QUEUED {
        0 => assert_trace(&world, &[BODY, CLEANUP], WHAT),
        1 => assert_trace(&world, &[BODY, CLEANUP, DEFERRED], WHAT),
        _ => assert_trace(&world, &[BODY, CLEANUP, DEFERRED, DEFERRED], WHAT),
    }
    assert!(sys.runs == 1 && sys.inits == 0, "run_initialized_system: runs the body once and does not re-initialize");
    core::mem::forget(world);
}
//# id=K.callbacks.run_initialized.plain.q0 props=C04 strength=complete shape="non-exclusive system, 0 deferred commands" tier=quick fns=run_initialized_system
#[kani::proof] #[kani::unwind(6)] fn k_callbacks_run_initialized_plain_q0() { run_initialized_contract::<false, 0>(); }
//# id=K.callbacks.run_initialized.plain.q2 props=C04 strength=complete shape="non-exclusive system, 2 deferred commands" tier=quick fns=run_initialized_system
#[kani::proof] #[kani::unwind(6)] fn k_callbacks_run_initialized_plain_q2() { run_initialized_contract::<false, 2>(); }
//# id=K.callbacks.run_initialized.exclusive.q0 props=C04 strength=complete shape="exclusive system, 0 deferred commands" tier=quick fns=run_initialized_system
#[kani::proof] #[kani::unwind(6)] fn k_callbacks_run_initialized_exclusive_q0() { run_initialized_contract::<true, 0>(); }
//# id=K.callbacks.run_initialized.exclusive.q2 props=C04 strength=complete shape="exclusive system, 2 deferred commands" tier=quick fns=run_initialized_system
#[kani::proof] #[kani::unwind(6)] fn k_callbacks_run_initialized_exclusive_q2() { run_initialized_contract::<true, 2>(); }

// ---------------------------------------------------------------------------------------------------------------
// K.callbacks.raw / K.callbacks.boxed: RawCallbackSystem / CallbackSystem::run_with_cleanup over 1..=3 consecutive runs (C13, C04):
// `initialize` happens exactly once (before the first body), the SAME instance (its private run counter continues 1,2,3)
// is stored back as `Initialized` after every run, cleanup sits between body and deferred commands on every run;
// CallbackSystem::Empty still runs the cleanup (and nothing else).
// ---------------------------------------------------------------------------------------------------------------
fn raw_contract<const RUNS: usize, const EXCL: bool>() {
    let mut world = World::new();
    world.init_resource::<Trace>();
    let exclusive: bool = EXCL;
    let mut cb: RawCallbackSystem<(), u32, Probe> = RawCallbackSystem::New(Probe { exclusive, queued: 1, runs: 0, inits: 0, pending: 0 });
    assert!(cb.is_new());
    let mut r = 0;
    while r < RUNS {
        world.resource_mut::<Trace>().n = 0;
        let out = cb.run_with_cleanup(&mut world, (), cleanup_fn);
        assert!(out == (r as u32) + 1, "RawCallbackSystem::run_with_cleanup: every run is executed by the SAME system instance (its private state persists)");
        if r == 0 { assert_trace(&world, &[INIT, BODY, CLEANUP, DEFERRED], "RawCallbackSystem::run_with_cleanup: first run initializes, then body, cleanup, deferred"); }
        else { assert_trace(&world, &[BODY, CLEANUP, DEFERRED], "RawCallbackSystem::run_with_cleanup: later runs do NOT initialize again; body, cleanup, deferred"); }
        assert!(cb.is_initialized(), "RawCallbackSystem::run_with_cleanup: the system is stored back as Initialized");
        r += 1;
    }
    match &cb { RawCallbackSystem::Initialized(s) => assert!(s.inits == 1 && s.runs == RUNS as u32, "RawCallbackSystem: initialized exactly once over all runs"), _ => assert!(false, "RawCallbackSystem: stored back as Initialized") }
    core::mem::forget(world);
}
//# id=K.callbacks.raw.plain.runs3 props=C13,C04 strength=bounded shape="3 consecutive runs of a non-exclusive system" tier=quick fns=RawCallbackSystem::run_with_cleanup,run_initialized_system
#[kani::proof] #[kani::unwind(6)] fn k_callbacks_raw_plain_runs3() { raw_contract::<3, false>(); }
//# id=K.callbacks.raw.exclusive.runs3 props=C13,C04 strength=bounded shape="3 consecutive runs of an exclusive system" tier=quick fns=RawCallbackSystem::run_with_cleanup,run_initialized_system
#[kani::proof] #[kani::unwind(6)] fn k_callbacks_raw_exclusive_runs3() { raw_contract::<3, true>(); }

//# id=K.callbacks.raw.plain.runs5 props=C13,C04 strength=bounded shape="5 consecutive runs of a non-exclusive system" tier=thorough fns=RawCallbackSystem::run_with_cleanup,run_initialized_system
#[kani::proof] #[kani::unwind(8)] fn k_callbacks_raw_plain_runs5() { raw_contract::<5, false>(); }

fn boxed_contract<const RUNS: usize, const EXCL: bool>() {
    let mut world = World::new();
    world.init_resource::<Trace>();
    let exclusive: bool = EXCL;
    let mut cb: CallbackSystem<(), u32> = CallbackSystem::New(Box::new(Probe { exclusive, queued: 1, runs: 0, inits: 0, pending: 0 }));
    let mut r = 0;
    while r < RUNS {
        world.resource_mut::<Trace>().n = 0;
        let out = cb.run_with_cleanup(&mut world, (), cleanup_fn);
        assert!(out == Some((r as u32) + 1), "CallbackSystem::run_with_cleanup: every run is executed by the SAME system instance");
        if r == 0 { assert_trace(&world, &[INIT, BODY, CLEANUP, DEFERRED], "CallbackSystem::run_with_cleanup: first run initializes, then body, cleanup, deferred"); }
        else { assert_trace(&world, &[BODY, CLEANUP, DEFERRED], "CallbackSystem::run_with_cleanup: later runs do NOT initialize again"); }
        assert!(cb.is_initialized(), "CallbackSystem::run_with_cleanup: the system is stored back as Initialized");
        r += 1;
    }
    core::mem::forget(cb);
    core::mem::forget(world);
}
//# id=K.callbacks.boxed.plain.runs2 props=C13,C04,C17 strength=bounded shape="2 consecutive runs of a boxed non-exclusive system" tier=quick fns=CallbackSystem::run_with_cleanup
#[kani::proof] #[kani::unwind(6)] fn k_callbacks_boxed_plain_runs2() { boxed_contract::<2, false>(); }
//# id=K.callbacks.boxed.exclusive.runs2 props=C13,C04,C17 strength=bounded shape="2 consecutive runs of a boxed exclusive system" tier=quick fns=CallbackSystem::run_with_cleanup
#[kani::proof] #[kani::unwind(6)] fn k_callbacks_boxed_exclusive_runs2() { boxed_contract::<2, true>(); }

//# id=K.callbacks.boxed.empty props=C04 strength=complete shape="Empty callback" tier=quick fns=CallbackSystem::run_with_cleanup
#[kani::proof] #[kani::unwind(6)]
fn k_callbacks_boxed_empty() {
    let mut world = World::new();
    world.init_resource::<Trace>();
    let mut cb: CallbackSystem<(), u32> = CallbackSystem::Empty;
    let out = cb.run_with_cleanup(&mut world, (), cleanup_fn);
    assert!(out.is_none(), "CallbackSystem::run_with_cleanup: an empty callback runs nothing");
    assert_trace(&world, &[CLEANUP], "CallbackSystem::run_with_cleanup: an empty callback still runs the cleanup exactly once");
    core::mem::forget(world);
}
