//! Re-exports for contract modules outside `ecs` (appended to src/ecs/mod.rs as child module `verif_contracts`).
pub(crate) use super::auto_despawn::verif_contracts::new_despawner;
