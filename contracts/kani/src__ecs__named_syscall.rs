//! Kani contracts for src/ecs/named_syscall.rs (appended as child module `verif_contracts`).
use super::*;
use crate::ecs::callbacks::verif_contracts::{Probe, Trace, assert_trace, BODY, DEFERRED, INIT};
fn probe() -> Probe { Probe { exclusive: false, queued: 1, runs: 0, inits: 0, pending: 0 } }

// ---------------------------------------------------------------------------------------------------------------
// K.syscall.named: named systems (C17): a registered system is initialized once at registration; every named_syscall_direct
// with its key runs the SAME instance (counter 1,2,3 over three calls: the system is put back after every call), applies
// its deferred commands before returning; another key is independent; an unknown key => Err and nothing runs.
// ---------------------------------------------------------------------------------------------------------------
//# id=K.syscall.named props=C17 strength=bounded shape="2 registered keys; calls: A, A, A, B, unknown" tier=off fns=named_syscall_direct,register_named_system_from
#[kani::proof] #[kani::unwind(6)]
fn k_syscall_named() {
    let mut world = World::new();
    world.init_resource::<Trace>();
    let ka = SysName::new_raw::<u8>(1);
    let kb = SysName::new_raw::<u8>(2);
    let kc = SysName::new_raw::<u8>(3);
    register_named_system_from(&mut world, ka, CallbackSystem::<(), u32>::New(Box::new(probe())));
    register_named_system_from(&mut world, kb, CallbackSystem::<(), u32>::New(Box::new(probe())));
    assert_trace(&world, &[INIT, INIT], "register_named_system_from: initializes the system once at registration");
    world.resource_mut::<Trace>().n = 0;
    let o1 = named_syscall_direct::<(), u32>(&mut world, ka, ()).ok();
    assert_trace(&world, &[BODY, DEFERRED], "named_syscall_direct: runs the body once and applies its deferred commands before returning");
    let o2 = named_syscall_direct::<(), u32>(&mut world, ka, ()).ok();
    let o3 = named_syscall_direct::<(), u32>(&mut world, ka, ()).ok();
    assert!(o1 == Some(1) && o2 == Some(2) && o3 == Some(3), "named_syscall_direct: state persists across calls with the same key (the same system is put back after every call)");
    let o4 = named_syscall_direct::<(), u32>(&mut world, kb, ()).ok();
    assert!(o4 == Some(1), "named_syscall_direct: another key has its own, independent state");
    let n = world.resource::<Trace>().n;
    assert!(named_syscall_direct::<(), u32>(&mut world, kc, ()).is_err() && world.resource::<Trace>().n == n, "named_syscall_direct: unknown key => Err, nothing runs");
    core::mem::forget(world);
}
