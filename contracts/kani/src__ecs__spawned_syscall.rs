//! Kani contracts for src/ecs/spawned_syscall.rs (appended as child module `verif_contracts`).
use super::*;
use crate::ecs::callbacks::verif_contracts::{Probe, Trace, assert_trace, BODY, DEFERRED, INIT};
fn probe() -> Probe { Probe { exclusive: false, queued: 1, runs: 0, inits: 0, pending: 0 } }

// ---------------------------------------------------------------------------------------------------------------
// K.syscall.spawned: spawned_syscall (C17, C18): runs the system stored on the entity once with the input, returns Ok(output)
// after applying its deferred commands, and puts the SAME system back (second call continues its counter); two spawned
// systems are independent; a missing entity, a missing component, or a system that is currently taken (recursion) => Err and
// nothing runs.
// ---------------------------------------------------------------------------------------------------------------
//# id=K.syscall.spawned.persist props=C17 strength=bounded shape="2 spawned systems; calls: A, A, B" tier=off fns=spawned_syscall,spawn_system_from
#[kani::proof] #[kani::unwind(6)]
fn k_syscall_spawned_persist() {
    let mut world = World::new();
    world.init_resource::<Trace>();
    let a = spawn_system_from(&mut world, CallbackSystem::<(), u32>::New(Box::new(probe())));
    let b = spawn_system_from(&mut world, CallbackSystem::<(), u32>::New(Box::new(probe())));
    let o1 = spawned_syscall::<(), u32>(&mut world, a, ());
    assert!(o1 == Ok(1), "spawned_syscall: runs the stored system once and returns its output");
    assert_trace(&world, &[INIT, BODY, DEFERRED], "spawned_syscall: deferred commands are applied before returning");
    let o2 = spawned_syscall::<(), u32>(&mut world, a, ());
    assert!(o2 == Ok(2), "spawned_syscall: state persists across calls with the same id (the same system was put back)");
    let o3 = spawned_syscall::<(), u32>(&mut world, b, ());
    assert!(o3 == Ok(1), "spawned_syscall: another spawned system has its own, independent state");
    core::mem::forget(world);
}
//# id=K.syscall.spawned.missing props=C18,C17 strength=complete shape="calls on: a despawned system entity, an entity without system component, a system that is currently taken" tier=quick fns=spawned_syscall
#[kani::proof] #[kani::unwind(6)]
fn k_syscall_spawned_missing() {
    let mut world = World::new();
    world.init_resource::<Trace>();
    let gone = world.spawn_empty().id();
    world.despawn(gone);
    let bare = world.spawn_empty().id();
    let taken = world.spawn(SpawnedSystem::<(), u32>{ system: None }).id();
    assert!(spawned_syscall::<(), u32>(&mut world, SysId::new(gone), ()).is_err(), "spawned_syscall: missing entity => Err");
    assert!(spawned_syscall::<(), u32>(&mut world, SysId::new(bare), ()).is_err(), "spawned_syscall: missing system component => Err");
    assert!(spawned_syscall::<(), u32>(&mut world, SysId::new(taken), ()).is_err(), "spawned_syscall: a system that is currently running (taken) => Err");
    assert!(world.resource::<Trace>().n == 0, "spawned_syscall: an Err call runs nothing");
    core::mem::forget(world);
}
