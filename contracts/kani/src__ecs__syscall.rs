//! Kani contracts for src/ecs/syscall.rs (appended as child module `verif_contracts`).
use super::*;
use crate::ecs::callbacks::verif_contracts::{Probe, Trace, assert_trace, BODY, DEFERRED, INIT};

/// a second system TYPE (= a different syscall key) with the same behaviour
pub(crate) struct Probe2(pub(crate) Probe);
impl System for Probe2 {
    type In = (); type Out = u32;
    fn is_exclusive(&self) -> bool { self.0.is_exclusive() }
    unsafe fn run_unsafe(&mut self, i: (), w: bevy::ecs::world::unsafe_world_cell::UnsafeWorldCell) -> u32 { unsafe { self.0.run_unsafe(i, w) } }
    fn run(&mut self, i: (), w: &mut World) -> u32 { self.0.run(i, w) }
    fn apply_deferred(&mut self, w: &mut World) { self.0.apply_deferred(w) }
    fn initialize(&mut self, w: &mut World) { self.0.initialize(w) }
    fn update_archetype_component_access(&mut self, _: bevy::ecs::world::unsafe_world_cell::UnsafeWorldCell) {}
}
fn probe() -> Probe { Probe { exclusive: false, queued: 1, runs: 0, inits: 0, pending: 0 } }

// ---------------------------------------------------------------------------------------------------------------
// K.syscall.cached: syscall(world, input, system) (C17): runs the system once, returns its output, has applied its deferred
// commands before returning; the system state persists across calls with the same key (the system TYPE): the second call
// is executed by the SAME instance (run counter continues, initialized once); another type is independent.
// ---------------------------------------------------------------------------------------------------------------
//# id=K.syscall.cached props=C17 strength=bounded shape="3 calls: key A, key A, key B (stub systems with private run counters)" tier=off fns=syscall,syscall_with_validation
#[kani::proof] #[kani::unwind(6)]
fn k_syscall_cached() {
    let mut world = World::new();
    world.init_resource::<Trace>();
    let o1 = syscall(&mut world, (), probe());
    assert!(o1 == 1, "syscall: runs the system once and returns its output");
    assert_trace(&world, &[INIT, BODY, DEFERRED], "syscall: initializes on first use, runs the body, and has applied the deferred commands before returning");
    world.resource_mut::<Trace>().n = 0;
    let o2 = syscall(&mut world, (), probe());
    assert!(o2 == 2, "syscall: state persists across calls with the same key (same instance runs again)");
    assert_trace(&world, &[BODY, DEFERRED], "syscall: a cached system is not initialized again");
    world.resource_mut::<Trace>().n = 0;
    let o3 = syscall(&mut world, (), Probe2(probe()));
    assert!(o3 == 1, "syscall: a different key (system type) has its own, independent state");
    core::mem::forget(world);
}
