//! Kani contracts for src/react/command_queue.rs (appended as child module `verif_contracts`).
//! The FIFO contract of the postponed-command buffer is PROVED for all lengths by Verus unit `queue`; these bounded
//! harnesses state the same contract on the compiled code so that a change Verus cannot follow (e.g. a new loop without
//! invariant) is still decided, with a counterexample.
use super::*;

// K.queue.fifo: append(new) puts `new` BEHIND what is queued, in order; remove() hands over everything in order and leaves
// the queue empty; push appends one; pop_front takes the oldest (C12).  Shape: A queued + B appended, contents symbolic.
fn fifo_contract<const A: usize, const B: usize>() {
    let mut q = CobwebCommandQueue::<u32>::default();
    let mut a = [0u32; A];
    let mut b = [0u32; B];
    let mut i = 0; while i < A { a[i] = kani::any(); q.push(a[i]); i += 1; }
    let mut new: VecDeque<u32> = VecDeque::with_capacity(B + 1);
    let mut i = 0; while i < B { b[i] = kani::any(); new.push_back(b[i]); i += 1; }
    q.append(new);
    assert!(q.commands.len() == A + B, "CobwebCommandQueue::append: nothing is lost or duplicated");
    let mut i = 0;
    while i < A + B {
        let want = if i < A { a[i] } else { b[i - A] };
        assert!(q.commands[i] == want, "CobwebCommandQueue::append: the appended commands go BEHIND the queued ones, both in their order (FIFO)");
        i += 1;
    }
    let x: u32 = kani::any();
    q.push(x);
    assert!(q.commands.len() == A + B + 1 && q.commands[A + B] == x, "CobwebCommandQueue::push: appends at the back");
    if A + B > 0 { let first = if A > 0 { a[0] } else { b[0] }; assert!(q.pop_front() == Some(first), "CobwebCommandQueue::pop_front: takes the oldest command"); }
    let all = q.remove();
    assert!(q.commands.len() == 0, "CobwebCommandQueue::remove: leaves the queue empty");
    assert!(all.len() == (if A + B > 0 { A + B } else { 1 }), "CobwebCommandQueue::remove: hands over everything that was queued");
    assert!(all[all.len() - 1] == x, "CobwebCommandQueue::remove: in queue order");
    core::mem::forget(q); core::mem::forget(all);
}
//# id=K.queue.fifo.a0b2 props=C12 strength=bounded shape="empty queue, 2 appended (contents symbolic)" tier=quick fns=CobwebCommandQueue::append,CobwebCommandQueue::push,CobwebCommandQueue::pop_front,CobwebCommandQueue::remove
#[kani::proof] #[kani::unwind(8)] fn k_queue_fifo_a0b2() { fifo_contract::<0, 2>(); }
//# id=K.queue.fifo.a2b2 props=C12 strength=bounded shape="2 queued + 2 appended (contents symbolic)" tier=quick fns=CobwebCommandQueue::append,CobwebCommandQueue::push,CobwebCommandQueue::pop_front,CobwebCommandQueue::remove
#[kani::proof] #[kani::unwind(8)] fn k_queue_fifo_a2b2() { fifo_contract::<2, 2>(); }
//# id=K.queue.fifo.a1b0 props=C12 strength=bounded shape="1 queued, nothing appended" tier=quick fns=CobwebCommandQueue::append,CobwebCommandQueue::push,CobwebCommandQueue::pop_front,CobwebCommandQueue::remove
#[kani::proof] #[kani::unwind(8)] fn k_queue_fifo_a1b0() { fifo_contract::<1, 0>(); }
