//! Kani contracts for src/react/commands.rs (appended as child module `verif_contracts`).
use super::*;
include!("common.inc");
use crate::react::event_readers::verif_contracts::peek as peek_event;
use crate::react::system_event_reader::verif_contracts::peek as peek_sysevent;
use crate::react::entity_reaction_readers::verif_contracts::peek as peek_entity;
use crate::react::despawn_reader::verif_contracts::peek as peek_despawn;

#[derive(Component)] struct Payload(u32);

fn world_with_trackers() -> World {
    let mut w = World::new();
    w.init_resource::<SystemEventAccessTracker>();
    w.init_resource::<EntityReactionAccessTracker>();
    w.init_resource::<EventAccessTracker>();
    w.init_resource::<DespawnAccessTracker>();
    w
}

// ---------------------------------------------------------------------------------------------------------------
// K.commands.cleanup_data: try_cleanup_data_entity(world, e) decrements the reader counter of e and despawns e (releasing
// the payload) iff the counter reaches 0; an entity without counter (already gone / not a data entity) is left alone and
// nothing panics (C05, C18).  Shape: loop-free; counter value symbolic (full usize domain), entity alive / dead / no counter.
// ---------------------------------------------------------------------------------------------------------------
//# id=K.commands.cleanup_data props=C05,C18 strength=complete shape="loop-free; counter symbolic over usize; entity has counter / has none / is dead" tier=quick fns=try_cleanup_data_entity
#[kani::proof] #[kani::unwind(10)]
fn k_commands_cleanup_data() {
    let mut world = World::new();
    let n: usize = kani::any();
    let case: u8 = kani::any();
    kani::assume(case < 3);
    let bystander = world.spawn((DataEntityCounter::new(2), Payload(1))).id();
    let e = match case {
        0 => world.spawn((DataEntityCounter::new(n), Payload(7))).id(),
        1 => world.spawn(Payload(7)).id(),
        _ => { let e = world.spawn(Payload(7)).id(); world.despawn(e); e }
    };
    vlog!("REPLAY-INPUT case={} counter={}", case, n);
    try_cleanup_data_entity(&mut world, e);
    match case {
        0 => {
            if n <= 1 { assert!(!world.verif_is_alive(e), "try_cleanup_data_entity: the last reader's cleanup releases the data entity"); }
            else {
                assert!(world.verif_is_alive(e), "try_cleanup_data_entity: data entity is kept while readers remain");
                assert!(world.get::<DataEntityCounter>(e).unwrap().count == n - 1, "try_cleanup_data_entity: exactly one reader is counted off");
                assert!(world.get::<Payload>(e).is_some(), "try_cleanup_data_entity: payload kept while readers remain");
            }
        }
        1 => assert!(world.verif_is_alive(e), "try_cleanup_data_entity: an entity without reader counter is left alone"),
        _ => assert!(!world.verif_is_alive(e), "try_cleanup_data_entity: dead entity stays dead"),
    }
    assert!(world.verif_is_alive(bystander) && world.get::<DataEntityCounter>(bystander).unwrap().count == 2, "try_cleanup_data_entity: other data entities are untouched");
    core::mem::forget(world);
}

// ---------------------------------------------------------------------------------------------------------------
// K.commands.start_end.<kind>: the setup/cleanup pair attached to each command kind starts / ends exactly the trackers of
// that kind (C03, C04): after start_X(sys) the X tracker(s) expose the metadata parked for `sys`; after end_X they are not
// reacting any more; the trackers of the other kinds are untouched; event payload entities are released per C05
// (system event: despawned at end; broadcast / entity event: reader counter decremented, despawned at 0).
// Shape: loop-free; one entry parked for `sys` in each tracker, a second one for another system; counter symbolic 0..=3.
// KIND: 0 system event, 1 entity reaction, 2 despawn, 3 entity event, 4 broadcast.
// ---------------------------------------------------------------------------------------------------------------
fn start_end_contract<const KIND: u8>()
{
    let mut world = world_with_trackers();
    let sys = SystemCommand(world.spawn_empty().id());
    let other = SystemCommand(world.spawn_empty().id());
    let n: usize = kani::any();
    kani::assume(n <= 3);
    let d_sys = world.spawn((DataEntityCounter::new(n), Payload(1))).id();     // data of the event parked for `sys`
    let d_other = world.spawn((DataEntityCounter::new(2), Payload(2))).id();   // data of the event parked for `other`
    let src = world.spawn_empty().id();
    let src_other = world.spawn_empty().id();
    let rt = EntityReactionType::Mutation(TypeId::of::<u8>());
    // park one entry per tracker for `other` FIRST and one for `sys` second
    world.resource_mut::<SystemEventAccessTracker>().prepare(other, d_other);
    world.resource_mut::<SystemEventAccessTracker>().prepare(sys, d_sys);
    world.resource_mut::<EventAccessTracker>().prepare(other, d_other);
    world.resource_mut::<EventAccessTracker>().prepare(sys, d_sys);
    world.resource_mut::<EntityReactionAccessTracker>().prepare(other, src_other, rt);
    world.resource_mut::<EntityReactionAccessTracker>().prepare(sys, src, rt);
    world.resource_mut::<DespawnAccessTracker>().prepare(other, src_other, ReactorHandle::Persistent(other));
    world.resource_mut::<DespawnAccessTracker>().prepare(sys, src, ReactorHandle::Persistent(sys));
    vlog!("REPLAY-INPUT kind={} counter={}", KIND, n);

    match KIND { 0 => start_system_event(&mut world, sys), 1 => start_entity_reaction(&mut world, sys), 2 => start_despawn_reaction(&mut world, sys),
                 3 => start_entity_event(&mut world, sys), _ => start_broadcast_event(&mut world, sys) }

    let se = peek_sysevent(world.resource::<SystemEventAccessTracker>());
    let ev = peek_event(world.resource::<EventAccessTracker>());
    let er = peek_entity(world.resource::<EntityReactionAccessTracker>());
    let de = peek_despawn(world.resource::<DespawnAccessTracker>());
    vlog!("REPLAY-STATE after start: sysevent={:?} event={:?} entity_reaction=({},{}) despawn={:?}", se, ev, er.0, er.4, de);
    assert!(se.0 == (KIND == 0) && se.2 == if KIND == 0 { 1 } else { 2 }, "start_*: the system-event tracker is started by start_system_event only");
    assert!(ev.0 == (KIND == 3 || KIND == 4) && ev.2 == if KIND == 3 || KIND == 4 { 1 } else { 2 }, "start_*: the event tracker is started by start_entity_event / start_broadcast_event only");
    assert!(er.0 == (KIND == 1 || KIND == 3) && er.4 == if KIND == 1 || KIND == 3 { 1 } else { 2 }, "start_*: the entity-reaction tracker is started by start_entity_reaction / start_entity_event only");
    assert!(de.0 == (KIND == 2) && de.3 == if KIND == 2 { 1 } else { 2 }, "start_*: the despawn tracker is started by start_despawn_reaction only");
    if KIND == 0 { assert!(se.1 == d_sys, "start_system_event: exposes the data parked for THIS system"); }
    if KIND == 3 || KIND == 4 { assert!(ev.1 == d_sys, "start_entity_event/start_broadcast_event: exposes the data parked for THIS system"); }
    if KIND == 1 || KIND == 3 { assert!(er.1 == sys && er.2 == src, "start_entity_reaction/start_entity_event: exposes the source parked for THIS system"); }
    if KIND == 2 { assert!(de.1 == src && de.2, "start_despawn_reaction: exposes the source parked for THIS system and holds its handle"); }

    match KIND { 0 => end_system_event(&mut world), 1 => end_entity_reaction(&mut world), 2 => end_despawn_reaction(&mut world),
                 3 => end_entity_event(&mut world), _ => end_broadcast_event(&mut world) }

    let se = peek_sysevent(world.resource::<SystemEventAccessTracker>());
    let ev = peek_event(world.resource::<EventAccessTracker>());
    let er = peek_entity(world.resource::<EntityReactionAccessTracker>());
    let de = peek_despawn(world.resource::<DespawnAccessTracker>());
    assert!(!se.0 && !ev.0 && !er.0 && !de.0, "end_*: no tracker is reacting after the cleanup of the run (event data invisible afterwards)");
    assert!(!de.2, "end_despawn_reaction: the despawn handle is dropped");
    // payload release
    if KIND == 0 { assert!(!world.verif_is_alive(d_sys), "end_system_event: the system-event payload entity is despawned"); }
    else if KIND == 3 || KIND == 4 {
        if n <= 1 { assert!(!world.verif_is_alive(d_sys), "end_entity_event/end_broadcast_event: last reader => payload entity despawned"); }
        else { assert!(world.verif_is_alive(d_sys) && world.get::<DataEntityCounter>(d_sys).unwrap().count == n - 1, "end_entity_event/end_broadcast_event: one reader counted off, payload kept for the others"); }
    } else { assert!(world.verif_is_alive(d_sys) && world.get::<DataEntityCounter>(d_sys).unwrap().count == n, "end_entity_reaction/end_despawn_reaction: no event payload is touched"); }
    assert!(world.verif_is_alive(d_other) && world.get::<DataEntityCounter>(d_other).unwrap().count == 2, "end_*: the payload parked for another system is untouched");
    core::mem::forget(world);
}

//# id=K.commands.start_end.system_event props=C03,C04,C05 strength=complete shape="loop-free; two parked entries per tracker; reader counter symbolic 0..=3" tier=quick fns=start_system_event,end_system_event
#[kani::proof] #[kani::unwind(10)] fn k_commands_start_end_system_event() { start_end_contract::<0>(); }
//# id=K.commands.start_end.entity_reaction props=C03,C04 strength=complete shape="loop-free; two parked entries per tracker; reader counter symbolic 0..=3" tier=quick fns=start_entity_reaction,end_entity_reaction
#[kani::proof] #[kani::unwind(10)] fn k_commands_start_end_entity_reaction() { start_end_contract::<1>(); }
//# id=K.commands.start_end.despawn props=C03,C04,C07 strength=complete shape="loop-free; two parked entries per tracker; reader counter symbolic 0..=3" tier=quick fns=start_despawn_reaction,end_despawn_reaction
#[kani::proof] #[kani::unwind(10)] fn k_commands_start_end_despawn() { start_end_contract::<2>(); }
//# id=K.commands.start_end.entity_event props=C03,C04,C05 strength=complete shape="loop-free; two parked entries per tracker; reader counter symbolic 0..=3" tier=quick fns=start_entity_event,end_entity_event,try_cleanup_data_entity
#[kani::proof] #[kani::unwind(10)] fn k_commands_start_end_entity_event() { start_end_contract::<3>(); }
//# id=K.commands.start_end.broadcast props=C03,C04,C05 strength=complete shape="loop-free; two parked entries per tracker; reader counter symbolic 0..=3" tier=quick fns=start_broadcast_event,end_broadcast_event,try_cleanup_data_entity
#[kani::proof] #[kani::unwind(10)] fn k_commands_start_end_broadcast() { start_end_contract::<4>(); }
