//! Kani contracts for src/react/commands.rs (appended as child module `verif_contracts`).
use super::*;
include!("common.inc");

#[derive(Component)] struct Payload(u32);
/// read access to the reader counter for contract modules of other files
pub(crate) fn counter_value(c: &DataEntityCounter) -> usize { c.count }


// ---------------------------------------------------------------------------------------------------------------
// K.commands.cleanup_data: try_cleanup_data_entity(world, e) decrements the reader counter of e and despawns e (releasing
// the payload) iff the counter reaches 0; an entity without counter (already gone / not a data entity) is left alone and
// nothing panics (C05, C18).  Shape: counter value symbolic (full usize domain); entity with counter / without / dead (one harness each).
// (the start_*/end_* functions of this file are verified verbatim by Verus unit `commands`.)
// ---------------------------------------------------------------------------------------------------------------
fn cleanup_data_contract<const CASE: u8>() {
    let mut world = World::new();
    let n: usize = kani::any();
    let case = CASE;
    let e = match case {
        0 => world.spawn(DataEntityCounter::new(n)).id(),
        1 => world.spawn(Payload(7)).id(),
        _ => { let e = world.spawn_empty().id(); world.despawn(e); e }
    };
    vlog!("REPLAY-INPUT case={} counter={}", case, n);
    try_cleanup_data_entity(&mut world, e);
    match case {
        0 => {
            if n <= 1 { assert!(!world.verif_is_alive(e), "try_cleanup_data_entity: the last reader's cleanup releases the data entity"); }
            else {
                assert!(world.verif_is_alive(e), "try_cleanup_data_entity: data entity is kept while readers remain");
                assert!(world.get::<DataEntityCounter>(e).unwrap().count == n - 1, "try_cleanup_data_entity: exactly one reader is counted off");
            }
        }
        1 => assert!(world.verif_is_alive(e), "try_cleanup_data_entity: an entity without reader counter is left alone"),
        _ => assert!(!world.verif_is_alive(e), "try_cleanup_data_entity: dead entity stays dead"),
    }
    core::mem::forget(world);
}
//# id=K.commands.cleanup_data.counter props=C05,C18 strength=complete shape="entity with reader counter; counter symbolic over usize" tier=quick fns=try_cleanup_data_entity
#[kani::proof] #[kani::unwind(4)] fn k_commands_cleanup_data_counter() { cleanup_data_contract::<0>(); }
//# id=K.commands.cleanup_data.nocounter props=C05,C18 strength=complete shape="entity without reader counter" tier=quick fns=try_cleanup_data_entity
#[kani::proof] #[kani::unwind(4)] fn k_commands_cleanup_data_nocounter() { cleanup_data_contract::<1>(); }
//# id=K.commands.cleanup_data.dead props=C05,C18 strength=complete shape="dead entity" tier=quick fns=try_cleanup_data_entity
#[kani::proof] #[kani::unwind(4)] fn k_commands_cleanup_data_dead() { cleanup_data_contract::<2>(); }
