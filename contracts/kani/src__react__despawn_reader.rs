//! Kani contracts for src/react/despawn_reader.rs (appended as child module `verif_contracts`).
use super::*;
include!("common.inc");

pub(crate) fn peek(t: &DespawnAccessTracker) -> (bool, Entity, bool, usize) { (t.currently_reacting, t.reaction_source, t.reactor_handle.is_some(), t.prepared.len()) }

type Elem = (SystemCommand, Entity, ReactorHandle);
// handles are compared by the id they stand for (ReactorHandle has no PartialEq; Persistent handles carry no ref-count)
fn same(a: &Elem, b: &Elem) -> bool { a.0 == b.0 && a.1 == b.1 && a.2.sys_command() == b.2.sys_command() }
#[allow(dead_code)] fn dbg_list(l: &[Elem]) -> Vec<(u32, u32, u32)> { l.iter().map(|(s, d, h)| (s.0.index(), d.index(), h.sys_command().0.index())).collect() }

// ---------------------------------------------------------------------------------------------------------------
// K.tracker.despawn.start: `DespawnAccessTracker::start(r)` claims the OLDEST parked entry of system r, the other entries keep
// their ORDER; with no entry for r nothing changes (release semantics: the debug_assert!s are compiled out).
// Shape: parked list of fixed length L, every content symbolic (C03, C12).
// ---------------------------------------------------------------------------------------------------------------
fn start_contract<const L: usize>()
{
    let mut ids = [(SystemCommand(Entity::PLACEHOLDER), Entity::PLACEHOLDER, SystemCommand(Entity::PLACEHOLDER)); L];
    let mut i = 0;
    while i < L { ids[i] = (any_sys(), any_entity(), any_sys()); i += 1; }
    let mut old: Vec<Elem> = Vec::with_capacity(L);
    let mut prepared: Vec<Elem> = Vec::with_capacity(L);
    let mut i = 0;
    while i < L {
        old.push((ids[i].0, ids[i].1, ReactorHandle::Persistent(ids[i].2)));
        prepared.push((ids[i].0, ids[i].1, ReactorHandle::Persistent(ids[i].2)));
        i += 1;
    }
    let flag0: bool = kani::any();
    let src0 = any_entity();
    let mut t = DespawnAccessTracker{ currently_reacting: flag0, reaction_source: src0, reactor_handle: None, prepared };
    let r = any_sys();
    let mut first = L;
    let mut i = 0;
    while i < L { if first == L && old[i].0 == r { first = i; } i += 1; }
    vlog!("REPLAY-INPUT DespawnAccessTracker.prepared={:?} then start({:?})", dbg_list(&old), r);

    t.start(r);

    vlog!("REPLAY-OUTPUT DespawnAccessTracker.prepared={:?}", dbg_list(&t.prepared));
    if first == L {
        assert!(t.currently_reacting == flag0 && t.reaction_source == src0 && t.reactor_handle.is_none(), "DespawnAccessTracker::start: no entry for this system => current data unchanged");
        assert!(t.prepared.len() == L, "DespawnAccessTracker::start: no entry for this system => parked list unchanged");
        let mut j = 0;
        while j < L { assert!(same(&t.prepared[j], &old[j]), "DespawnAccessTracker::start: no entry for this system => parked list unchanged"); j += 1; }
    } else {
        assert!(t.currently_reacting, "DespawnAccessTracker::start: reacting flag set");
        assert!(t.reaction_source == old[first].1, "DespawnAccessTracker::start: claims the OLDEST entry parked for this system");
        assert!(t.reactor_handle.as_ref().map(|h| h.sys_command()) == Some(old[first].2.sys_command()), "DespawnAccessTracker::start: holds the claimed entry's handle while the reactor runs");
        assert!(t.prepared.len() == L - 1, "DespawnAccessTracker::start: exactly one entry consumed");
        let mut j = 0;
        while j + 1 < L {
            let src = if j < first { j } else { j + 1 };
            assert!(same(&t.prepared[j], &old[src]), "DespawnAccessTracker::start: entries other than the claimed one keep their order");
            j += 1;
        }
    }
    // drop glue of ReactorHandle (Arc + channel) is not the subject here: skip it (CBMC cost)
    core::mem::forget(t); core::mem::forget(old);
}

//# id=K.tracker.despawn.start.L0 props=C03,C12 strength=complete shape="parked list L=0" tier=quick fns=DespawnAccessTracker::start
#[kani::proof] #[kani::unwind(2)] fn k_tracker_despawn_start_l0() { start_contract::<0>(); }
//# id=K.tracker.despawn.start.L1 props=C03,C12 strength=complete shape="parked list L=1, all contents" tier=quick fns=DespawnAccessTracker::start
#[kani::proof] #[kani::unwind(3)] fn k_tracker_despawn_start_l1() { start_contract::<1>(); }
//# id=K.tracker.despawn.start.L2 props=C03,C12 strength=complete shape="parked list L=2, all contents" tier=quick fns=DespawnAccessTracker::start
#[kani::proof] #[kani::unwind(4)] fn k_tracker_despawn_start_l2() { start_contract::<2>(); }
//# id=K.tracker.despawn.start.L3 props=C03,C12 strength=complete shape="parked list L=3, all contents" tier=quick fns=DespawnAccessTracker::start
#[kani::proof] #[kani::unwind(5)] fn k_tracker_despawn_start_l3() { start_contract::<3>(); }
//# id=K.tracker.despawn.start.L4 props=C03,C12 strength=complete shape="parked list L=4, all contents" tier=thorough fns=DespawnAccessTracker::start
#[kani::proof] #[kani::unwind(6)] fn k_tracker_despawn_start_l4() { start_contract::<4>(); }
//# id=K.tracker.despawn.start.L5 props=C03,C12 strength=complete shape="parked list L=5, all contents" tier=thorough fns=DespawnAccessTracker::start
#[kani::proof] #[kani::unwind(7)] fn k_tracker_despawn_start_l5() { start_contract::<5>(); }
//# id=K.tracker.despawn.start.L6 props=C03,C12 strength=complete shape="parked list L=6, all contents" tier=thorough fns=DespawnAccessTracker::start
#[kani::proof] #[kani::unwind(8)] fn k_tracker_despawn_start_l6() { start_contract::<6>(); }
//# id=K.tracker.despawn.start.L7 props=C03,C12 strength=complete shape="parked list L=7, all contents" tier=thorough fns=DespawnAccessTracker::start
#[kani::proof] #[kani::unwind(9)] fn k_tracker_despawn_start_l7() { start_contract::<7>(); }
