//! Kani contracts for src/react/entity_reaction_readers.rs (appended as child module `verif_contracts`).
use super::*;
include!("common.inc");

pub(crate) fn peek(t: &EntityReactionAccessTracker) -> (bool, SystemCommand, Entity, EntityReactionType, usize) { (t.currently_reacting, t.system, t.reaction_source, t.reaction_type, t.prepared.len()) }

type Elem = (SystemCommand, Entity, EntityReactionType);
fn same(a: &Elem, b: &Elem) -> bool { a == b }
fn tid(k: u8) -> TypeId { match k { 0 => TypeId::of::<u8>(), 1 => TypeId::of::<u16>(), _ => TypeId::of::<()>() } }
fn any_rtype() -> EntityReactionType {
    let k: u8 = kani::any(); let t = tid(kani::any());
    match k % 4 { 0 => EntityReactionType::Insertion(t), 1 => EntityReactionType::Mutation(t), 2 => EntityReactionType::Removal(t), _ => EntityReactionType::Event(t) }
}
#[allow(dead_code)] fn dbg_list(l: &[Elem]) -> Vec<(u32, u32, String)> { l.iter().map(|(s, d, r)| (s.0.index(), d.index(), format!("{:?}", r))).collect() }

// ---------------------------------------------------------------------------------------------------------------
// K.tracker.entity.start: `EntityReactionAccessTracker::start(r)` claims the OLDEST parked entry of system r, the other entries keep
// their ORDER; with no entry for r nothing changes (release semantics: the debug_assert!s are compiled out).
// Shape: parked list of fixed length L, every content symbolic (C03, C12).
// ---------------------------------------------------------------------------------------------------------------
fn start_contract<const L: usize>()
{
    let mut old = [(SystemCommand(Entity::PLACEHOLDER), Entity::PLACEHOLDER, EntityReactionType::Insertion(TypeId::of::<()>())); L];
    let mut i = 0;
    while i < L { old[i] = (any_sys(), any_entity(), any_rtype()); i += 1; }
    let flag0: bool = kani::any();
    let sys0 = any_sys();
    let src0 = any_entity();
    let rt0 = any_rtype();
    let mut t = EntityReactionAccessTracker{ currently_reacting: flag0, system: sys0, reaction_source: src0, reaction_type: rt0, prepared: old.to_vec() };
    let r = any_sys();
    let mut first = L;
    let mut i = 0;
    while i < L { if first == L && old[i].0 == r { first = i; } i += 1; }
    vlog!("REPLAY-INPUT EntityReactionAccessTracker.prepared={:?} then start({:?})", dbg_list(&old), r);

    t.start(r);

    vlog!("REPLAY-OUTPUT EntityReactionAccessTracker.prepared={:?}", dbg_list(&t.prepared));
    if first == L {
        assert!(t.currently_reacting == flag0 && t.system == sys0 && t.reaction_source == src0 && t.reaction_type == rt0, "EntityReactionAccessTracker::start: no entry for this system => current data unchanged");
        assert!(t.prepared.len() == L, "EntityReactionAccessTracker::start: no entry for this system => parked list unchanged");
        let mut j = 0;
        while j < L { assert!(same(&t.prepared[j], &old[j]), "EntityReactionAccessTracker::start: no entry for this system => parked list unchanged"); j += 1; }
    } else {
        assert!(t.currently_reacting, "EntityReactionAccessTracker::start: reacting flag set");
        assert!(t.system == r, "EntityReactionAccessTracker::start: current system is the started reactor");
        assert!(t.reaction_source == old[first].1 && t.reaction_type == old[first].2, "EntityReactionAccessTracker::start: claims the OLDEST entry parked for this system");
        assert!(t.prepared.len() == L - 1, "EntityReactionAccessTracker::start: exactly one entry consumed");
        let mut j = 0;
        while j + 1 < L {
            let src = if j < first { j } else { j + 1 };
            assert!(same(&t.prepared[j], &old[src]), "EntityReactionAccessTracker::start: entries other than the claimed one keep their order");
            j += 1;
        }
    }
}

// ---------------------------------------------------------------------------------------------------------------
// K.tracker.entity.prepare: `prepare` ALWAYS appends - also when an identical entry is already parked (two identical reactions
// pending for one busy reactor are two deliveries: C12 / C03).  Restatement of the Verus-proved `prepare` on the compiled code.
// ---------------------------------------------------------------------------------------------------------------
//# id=K.tracker.entity.prepare.L2 props=C03,C12 strength=complete shape="parked list L=2, all contents; new entry symbolic (may equal a parked one)" tier=quick fns=EntityReactionAccessTracker::prepare
#[kani::proof] #[kani::unwind(4)] fn k_tracker_entity_prepare_l2() {
    let a: Elem = (any_sys(), any_entity(), any_rtype());
    let b: Elem = (any_sys(), any_entity(), any_rtype());
    let n: Elem = (any_sys(), any_entity(), any_rtype());
    let mut t = EntityReactionAccessTracker{ currently_reacting: kani::any(), system: any_sys(), reaction_source: any_entity(), reaction_type: any_rtype(), prepared: vec![a, b] };
    t.prepare(n.0, n.1, n.2);
    assert!(t.prepared.len() == 3, "EntityReactionAccessTracker::prepare: the entry is appended even if an identical one is parked");
    assert!(same(&t.prepared[0], &a) && same(&t.prepared[1], &b) && same(&t.prepared[2], &n), "EntityReactionAccessTracker::prepare: appended at the end, parked entries untouched");
}

//# id=K.tracker.entity.start.L0 props=C03,C12,C16 strength=complete shape="parked list L=0" tier=quick fns=EntityReactionAccessTracker::start
#[kani::proof] #[kani::unwind(2)] fn k_tracker_entity_start_l0() { start_contract::<0>(); }
//# id=K.tracker.entity.start.L1 props=C03,C12,C16 strength=complete shape="parked list L=1, all contents" tier=quick fns=EntityReactionAccessTracker::start
#[kani::proof] #[kani::unwind(3)] fn k_tracker_entity_start_l1() { start_contract::<1>(); }
//# id=K.tracker.entity.start.L2 props=C03,C12,C16 strength=complete shape="parked list L=2, all contents" tier=quick fns=EntityReactionAccessTracker::start
#[kani::proof] #[kani::unwind(4)] fn k_tracker_entity_start_l2() { start_contract::<2>(); }
//# id=K.tracker.entity.start.L3 props=C03,C12,C16 strength=complete shape="parked list L=3, all contents" tier=quick fns=EntityReactionAccessTracker::start
#[kani::proof] #[kani::unwind(5)] fn k_tracker_entity_start_l3() { start_contract::<3>(); }
//# id=K.tracker.entity.start.L4 props=C03,C12,C16 strength=complete shape="parked list L=4, all contents" tier=thorough fns=EntityReactionAccessTracker::start
#[kani::proof] #[kani::unwind(6)] fn k_tracker_entity_start_l4() { start_contract::<4>(); }
//# id=K.tracker.entity.start.L5 props=C03,C12,C16 strength=complete shape="parked list L=5, all contents" tier=thorough fns=EntityReactionAccessTracker::start
#[kani::proof] #[kani::unwind(7)] fn k_tracker_entity_start_l5() { start_contract::<5>(); }
//# id=K.tracker.entity.start.L6 props=C03,C12,C16 strength=complete shape="parked list L=6, all contents" tier=thorough fns=EntityReactionAccessTracker::start
#[kani::proof] #[kani::unwind(8)] fn k_tracker_entity_start_l6() { start_contract::<6>(); }
//# id=K.tracker.entity.start.L7 props=C03,C12,C16 strength=complete shape="parked list L=7, all contents" tier=thorough fns=EntityReactionAccessTracker::start
#[kani::proof] #[kani::unwind(9)] fn k_tracker_entity_start_l7() { start_contract::<7>(); }

// ---------------------------------------------------------------------------------------------------------------
// K.entity_world.local: EntityLocal<T> (C16): inside a run of reactor T's own system caused by entity e, get()/get_mut()/entity()
// expose exactly e and the local data attached to e (writes through get_mut land on e's data); anywhere else - not reacting,
// or reacting in ANOTHER system - every accessor panics (data of another reactor/entity is never exposed).
// ---------------------------------------------------------------------------------------------------------------
use crate::react::entity_world_reactor::verif_contracts::{DemoReactor, mk_local, mk_reactor, local_value};
fn local_contract<const REACTING: bool, const SAME_SYSTEM: bool>() {
    let e = Entity::verif_new(3, 1);
    let sys = SystemCommand(Entity::verif_new(10, 1));
    let other_sys = SystemCommand(Entity::verif_new(11, 1));
    let v: u32 = kani::any();
    let mut data = mk_local(v);
    let mut res = EntityWorldReactorRes::<DemoReactor>::new(sys);
    let tracker = EntityReactionAccessTracker{ currently_reacting: REACTING, system: if SAME_SYSTEM { sys } else { other_sys }, reaction_source: e,
        reaction_type: EntityReactionType::Event(TypeId::of::<()>()), prepared: Vec::new() };
    let dp: *mut _ = &mut data;
    let mut l = EntityLocal::<DemoReactor>{ reactor: mk_reactor(Some(&mut res)), tracker: Res::verif_new(&tracker), data: Query::verif_single(e, Some(unsafe { &mut *dp })) };
    // every accessor panics unless (REACTING && SAME_SYSTEM): the should_panic harnesses below cover those cases
    assert!(l.entity() == e, "EntityLocal::entity: the entity that caused this run");
    { let (ge, gv) = l.get(); assert!(ge == e && *gv == v, "EntityLocal::get: the local data attached to the entity that caused this run"); }
    { let (ge, gv) = l.get_mut(); assert!(ge == e && *gv == v, "EntityLocal::get_mut: the local data attached to the entity that caused this run"); *gv = v.wrapping_add(1); }
    assert!(local_value(unsafe { &*dp }) == v.wrapping_add(1), "EntityLocal::get_mut: modifications land on that entity's data (seen by later runs)");
    core::mem::forget(l);
}
//# id=K.entity_world.local.own_run props=C16,C03 strength=complete shape="reacting, in the reactor's own system; local value symbolic" tier=quick fns=EntityLocal::entity,EntityLocal::get,EntityLocal::get_mut,EntityLocal::check
#[kani::proof] #[kani::unwind(6)] fn k_entity_world_local_own_run() { local_contract::<true, true>(); }
//# id=K.entity_world.local.not_reacting props=C16,C04 strength=complete shape="not reacting: accessor must panic" tier=quick fns=EntityLocal::entity,EntityLocal::check
#[kani::proof] #[kani::unwind(6)] #[kani::should_panic] fn k_entity_world_local_not_reacting() { local_contract::<false, true>(); }
//# id=K.entity_world.local.other_system props=C16,C04 strength=complete shape="reacting in another system: accessor must panic" tier=quick fns=EntityLocal::entity,EntityLocal::check
#[kani::proof] #[kani::unwind(6)] #[kani::should_panic] fn k_entity_world_local_other_system() { local_contract::<true, false>(); }
