//! Kani contracts for src/react/entity_reaction_readers.rs (appended as child module `verif_contracts`).
use super::*;
include!("common.inc");

pub(crate) fn peek(t: &EntityReactionAccessTracker) -> (bool, SystemCommand, Entity, EntityReactionType, usize) { (t.currently_reacting, t.system, t.reaction_source, t.reaction_type, t.prepared.len()) }

type Elem = (SystemCommand, Entity, EntityReactionType);
fn same(a: &Elem, b: &Elem) -> bool { a == b }
fn tid(k: u8) -> TypeId { match k { 0 => TypeId::of::<u8>(), 1 => TypeId::of::<u16>(), _ => TypeId::of::<()>() } }
fn any_rtype() -> EntityReactionType {
    let k: u8 = kani::any(); let t = tid(kani::any());
    match k % 4 { 0 => EntityReactionType::Insertion(t), 1 => EntityReactionType::Mutation(t), 2 => EntityReactionType::Removal(t), _ => EntityReactionType::Event(t) }
}
#[allow(dead_code)] fn dbg_list(l: &[Elem]) -> Vec<(u32, u32, String)> { l.iter().map(|(s, d, r)| (s.0.index(), d.index(), format!("{:?}", r))).collect() }

// ---------------------------------------------------------------------------------------------------------------
// K.tracker.entity.start: `EntityReactionAccessTracker::start(r)` claims the OLDEST parked entry of system r, the other entries keep
// their ORDER; with no entry for r nothing changes (release semantics: the debug_assert!s are compiled out).
// Shape: parked list of fixed length L, every content symbolic (C03, C12).
// ---------------------------------------------------------------------------------------------------------------
fn start_contract<const L: usize>()
{
    let mut old = [(SystemCommand(Entity::PLACEHOLDER), Entity::PLACEHOLDER, EntityReactionType::Insertion(TypeId::of::<()>())); L];
    let mut i = 0;
    while i < L { old[i] = (any_sys(), any_entity(), any_rtype()); i += 1; }
    let flag0: bool = kani::any();
    let sys0 = any_sys();
    let src0 = any_entity();
    let rt0 = any_rtype();
    let mut t = EntityReactionAccessTracker{ currently_reacting: flag0, system: sys0, reaction_source: src0, reaction_type: rt0, prepared: old.to_vec() };
    let r = any_sys();
    let mut first = L;
    let mut i = 0;
    while i < L { if first == L && old[i].0 == r { first = i; } i += 1; }
    vlog!("REPLAY-INPUT EntityReactionAccessTracker.prepared={:?} then start({:?})", dbg_list(&old), r);

    t.start(r);

    vlog!("REPLAY-OUTPUT EntityReactionAccessTracker.prepared={:?}", dbg_list(&t.prepared));
    if first == L {
        assert!(t.currently_reacting == flag0 && t.system == sys0 && t.reaction_source == src0 && t.reaction_type == rt0, "EntityReactionAccessTracker::start: no entry for this system => current data unchanged");
        assert!(t.prepared.len() == L, "EntityReactionAccessTracker::start: no entry for this system => parked list unchanged");
        let mut j = 0;
        while j < L { assert!(same(&t.prepared[j], &old[j]), "EntityReactionAccessTracker::start: no entry for this system => parked list unchanged"); j += 1; }
    } else {
        assert!(t.currently_reacting, "EntityReactionAccessTracker::start: reacting flag set");
        assert!(t.system == r, "EntityReactionAccessTracker::start: current system is the started reactor");
        assert!(t.reaction_source == old[first].1 && t.reaction_type == old[first].2, "EntityReactionAccessTracker::start: claims the OLDEST entry parked for this system");
        assert!(t.prepared.len() == L - 1, "EntityReactionAccessTracker::start: exactly one entry consumed");
        let mut j = 0;
        while j + 1 < L {
            let src = if j < first { j } else { j + 1 };
            assert!(same(&t.prepared[j], &old[src]), "EntityReactionAccessTracker::start: entries other than the claimed one keep their order");
            j += 1;
        }
    }
}

//# id=K.tracker.entity.start.L0 props=C03,C12 strength=complete shape="parked list L=0" tier=quick fns=EntityReactionAccessTracker::start
#[kani::proof] #[kani::unwind(2)] fn k_tracker_entity_start_l0() { start_contract::<0>(); }
//# id=K.tracker.entity.start.L1 props=C03,C12 strength=complete shape="parked list L=1, all contents" tier=quick fns=EntityReactionAccessTracker::start
#[kani::proof] #[kani::unwind(3)] fn k_tracker_entity_start_l1() { start_contract::<1>(); }
//# id=K.tracker.entity.start.L2 props=C03,C12 strength=complete shape="parked list L=2, all contents" tier=quick fns=EntityReactionAccessTracker::start
#[kani::proof] #[kani::unwind(4)] fn k_tracker_entity_start_l2() { start_contract::<2>(); }
//# id=K.tracker.entity.start.L3 props=C03,C12 strength=complete shape="parked list L=3, all contents" tier=quick fns=EntityReactionAccessTracker::start
#[kani::proof] #[kani::unwind(5)] fn k_tracker_entity_start_l3() { start_contract::<3>(); }
//# id=K.tracker.entity.start.L4 props=C03,C12 strength=complete shape="parked list L=4, all contents" tier=thorough fns=EntityReactionAccessTracker::start
#[kani::proof] #[kani::unwind(6)] fn k_tracker_entity_start_l4() { start_contract::<4>(); }
//# id=K.tracker.entity.start.L5 props=C03,C12 strength=complete shape="parked list L=5, all contents" tier=thorough fns=EntityReactionAccessTracker::start
#[kani::proof] #[kani::unwind(7)] fn k_tracker_entity_start_l5() { start_contract::<5>(); }
