//! Kani contracts for src/react/entity_world_reactor.rs (appended as child module `verif_contracts`).
use super::*;
use bevy::ecs::world::CommandQueue;
use core::any::TypeId;

pub(crate) struct DemoReactor;
/// constructors for the contract module of entity_reaction_readers.rs (EntityLocal lives there; these fields are private here)
pub(crate) fn mk_local(v: u32) -> EntityWorldLocal<DemoReactor> { EntityWorldLocal::new(v) }
pub(crate) fn local_value(l: &EntityWorldLocal<DemoReactor>) -> u32 { *l.inner() }
pub(crate) fn mk_reactor<'w>(res: Option<&'w mut EntityWorldReactorRes<DemoReactor>>) -> EntityReactor<'w, DemoReactor> { EntityReactor{ inner: res.map(|r| ResMut::verif_new(r)) } }
impl EntityWorldReactor for DemoReactor {
    type Triggers = EntityEventTrigger<u32>;
    type Local = u32;
    fn reactor(self) -> SystemCommandCallback { SystemCommandCallback::with(|_: &mut World, _: SystemCommandCleanup| {}) }
}
fn any_rtype() -> EntityReactionType {
    let k: u8 = kani::any();
    let t = if kani::any() { TypeId::of::<u8>() } else { TypeId::of::<u16>() };
    match k % 4 { 0 => EntityReactionType::Insertion(t), 1 => EntityReactionType::Mutation(t), 2 => EntityReactionType::Removal(t), _ => EntityReactionType::Event(t) }
}

// ---------------------------------------------------------------------------------------------------------------
// K.entity_world.cleanup_data: cleanup_reactor_data(id, e) (C16): the reactor's per-entity local data is removed from e
// IFF e's registration list holds no entry of reactor `id` any more (whatever the reaction type); it is kept otherwise;
// an entity without list (despawned / never registered) is left alone (C18).
// Shape: per-entity list of length L (all contents symbolic: kinds, type ids, reactor ids); entity has a list / has none.
// ---------------------------------------------------------------------------------------------------------------
fn cleanup_data_contract<const L: usize, const HAS_ER: bool>() {
    let world = World::new();
    let mut queue = CommandQueue::default();
    let e = Entity::verif_new(0, 1);
    let id = SystemCommand(Entity::verif_new(kani::any(), 1));
    let mut er = EntityReactors::default();
    let mut still_tracked = false;
    let mut i = 0;
    while i < L {
        let s = SystemCommand(Entity::verif_new(kani::any(), 1));
        er.insert(any_rtype(), ReactorHandle::Persistent(s));
        if s == id { still_tracked = true; }
        i += 1;
    }
    {
        let mut w2 = World::new();
        let live = w2.spawn_empty().id();     // the stub Commands needs the entity to exist for `commands.entity(e)`
        assert!(live == e);
        let commands = Commands::verif_new(&mut queue, &w2);
        cleanup_reactor_data::<DemoReactor>(In((id, e)), commands, Query::verif_single(e, if HAS_ER { Some(&mut er) } else { None }));
        core::mem::forget(w2);
    }
    let removed = queue.verif_pending();
    if !HAS_ER { assert!(removed == 0, "cleanup_reactor_data: an entity without registration list is left alone"); }
    else if still_tracked { assert!(removed == 0, "cleanup_reactor_data: local data is KEPT while the entity still has a trigger of this reactor"); }
    else { assert!(removed == 1, "cleanup_reactor_data: local data is REMOVED when the entity's last trigger of this reactor is gone"); }
    core::mem::forget(er); core::mem::forget(queue); core::mem::forget(world);
}
//# id=K.entity_world.cleanup_data.L0 props=C16 strength=complete shape="entity with an empty registration list" tier=quick fns=cleanup_reactor_data,EntityReactors::iter_reactors
#[kani::proof] #[kani::unwind(6)] fn k_entity_world_cleanup_data_l0() { cleanup_data_contract::<0, true>(); }
//# id=K.entity_world.cleanup_data.L1 props=C16 strength=bounded shape="registration list L=1, all contents symbolic" tier=quick fns=cleanup_reactor_data,EntityReactors::iter_reactors
#[kani::proof] #[kani::unwind(6)] fn k_entity_world_cleanup_data_l1() { cleanup_data_contract::<1, true>(); }
//# id=K.entity_world.cleanup_data.L2 props=C16 strength=bounded shape="registration list L=2, all contents symbolic" tier=quick fns=cleanup_reactor_data,EntityReactors::iter_reactors
#[kani::proof] #[kani::unwind(6)] fn k_entity_world_cleanup_data_l2() { cleanup_data_contract::<2, true>(); }
//# id=K.entity_world.cleanup_data.none props=C16,C18 strength=complete shape="entity without registration list" tier=quick fns=cleanup_reactor_data
#[kani::proof] #[kani::unwind(6)] fn k_entity_world_cleanup_data_none() { cleanup_data_contract::<0, false>(); }
