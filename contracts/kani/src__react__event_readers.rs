//! Kani contracts for src/react/event_readers.rs (appended as child module `verif_contracts`).
use super::*;
include!("common.inc");

/// (reacting?, current data entity, number of parked entries) - read access for contract modules of other files.
pub(crate) fn peek(t: &EventAccessTracker) -> (bool, Entity, usize) { (t.currently_reacting, t.data_entity, t.prepared.len()) }

type Elem = (SystemCommand, Entity);
fn same(a: &Elem, b: &Elem) -> bool { a == b }
#[allow(dead_code)] fn dbg_list(l: &[Elem]) -> Vec<(u32, u32)> { l.iter().map(|(s, d)| (s.0.index(), d.index())).collect() }

// ---------------------------------------------------------------------------------------------------------------
// K.tracker.event.start: `EventAccessTracker::start(r)` claims the OLDEST parked entry of system r, the other entries keep
// their ORDER; with no entry for r nothing changes (release semantics: the debug_assert!s are compiled out).
// Shape: parked list of fixed length L, every content symbolic (C03, C12).
// ---------------------------------------------------------------------------------------------------------------
fn start_contract<const L: usize>()
{
    let mut old = [(SystemCommand(Entity::PLACEHOLDER), Entity::PLACEHOLDER); L];
    let mut i = 0;
    while i < L { old[i] = (any_sys(), any_entity()); i += 1; }
    let flag0: bool = kani::any();
    let data0 = any_entity();
    let mut t = EventAccessTracker{ currently_reacting: flag0, data_entity: data0, prepared: old.to_vec() };
    let r = any_sys();
    let mut first = L;
    let mut i = 0;
    while i < L { if first == L && old[i].0 == r { first = i; } i += 1; }
    vlog!("REPLAY-INPUT EventAccessTracker.prepared={:?} then start({:?})", dbg_list(&old), r);

    t.start(r);

    vlog!("REPLAY-OUTPUT EventAccessTracker.prepared={:?}", dbg_list(&t.prepared));
    if first == L {
        assert!(t.currently_reacting == flag0 && t.data_entity == data0, "EventAccessTracker::start: no entry for this system => current data unchanged");
        assert!(t.prepared.len() == L, "EventAccessTracker::start: no entry for this system => parked list unchanged");
        let mut j = 0;
        while j < L { assert!(same(&t.prepared[j], &old[j]), "EventAccessTracker::start: no entry for this system => parked list unchanged"); j += 1; }
    } else {
        assert!(t.currently_reacting, "EventAccessTracker::start: reacting flag set");
        assert!(t.data_entity == old[first].1, "EventAccessTracker::start: claims the OLDEST entry parked for this system");
        assert!(t.prepared.len() == L - 1, "EventAccessTracker::start: exactly one entry consumed");
        let mut j = 0;
        while j + 1 < L {
            let src = if j < first { j } else { j + 1 };
            assert!(same(&t.prepared[j], &old[src]), "EventAccessTracker::start: entries other than the claimed one keep their order");
            j += 1;
        }
    }
}

// K.tracker.event.prepare: `prepare` ALWAYS appends - also when an identical entry is already parked (restatement of the Verus-proved `prepare`).
//# id=K.tracker.event.prepare.L2 props=C03,C12 strength=complete shape="parked list L=2, all contents; new entry symbolic (may equal a parked one)" tier=quick fns=EventAccessTracker::prepare
#[kani::proof] #[kani::unwind(4)] fn k_tracker_event_prepare_l2() {
    let a: Elem = (any_sys(), any_entity());
    let b: Elem = (any_sys(), any_entity());
    let n: Elem = (any_sys(), any_entity());
    let mut t = EventAccessTracker{ currently_reacting: kani::any(), data_entity: any_entity(), prepared: vec![a, b] };
    t.prepare(n.0, n.1);
    assert!(t.prepared.len() == 3, "EventAccessTracker::prepare: the entry is appended even if an identical one is parked");
    assert!(same(&t.prepared[0], &a) && same(&t.prepared[1], &b) && same(&t.prepared[2], &n), "EventAccessTracker::prepare: appended at the end, parked entries untouched");
}

//# id=K.tracker.event.start.L0 props=C03,C12 strength=complete shape="parked list L=0" tier=quick fns=EventAccessTracker::start
#[kani::proof] #[kani::unwind(2)] fn k_tracker_event_start_l0() { start_contract::<0>(); }
//# id=K.tracker.event.start.L1 props=C03,C12 strength=complete shape="parked list L=1, all contents" tier=quick fns=EventAccessTracker::start
#[kani::proof] #[kani::unwind(3)] fn k_tracker_event_start_l1() { start_contract::<1>(); }
//# id=K.tracker.event.start.L2 props=C03,C12 strength=complete shape="parked list L=2, all contents" tier=quick fns=EventAccessTracker::start
#[kani::proof] #[kani::unwind(4)] fn k_tracker_event_start_l2() { start_contract::<2>(); }
//# id=K.tracker.event.start.L3 props=C03,C12 strength=complete shape="parked list L=3, all contents" tier=quick fns=EventAccessTracker::start
#[kani::proof] #[kani::unwind(5)] fn k_tracker_event_start_l3() { start_contract::<3>(); }
//# id=K.tracker.event.start.L4 props=C03,C12 strength=complete shape="parked list L=4, all contents" tier=thorough fns=EventAccessTracker::start
#[kani::proof] #[kani::unwind(6)] fn k_tracker_event_start_l4() { start_contract::<4>(); }
//# id=K.tracker.event.start.L5 props=C03,C12 strength=complete shape="parked list L=5, all contents" tier=thorough fns=EventAccessTracker::start
#[kani::proof] #[kani::unwind(7)] fn k_tracker_event_start_l5() { start_contract::<5>(); }
//# id=K.tracker.event.start.L6 props=C03,C12 strength=complete shape="parked list L=6, all contents" tier=thorough fns=EventAccessTracker::start
#[kani::proof] #[kani::unwind(8)] fn k_tracker_event_start_l6() { start_contract::<6>(); }
//# id=K.tracker.event.start.L7 props=C03,C12 strength=complete shape="parked list L=7, all contents" tier=thorough fns=EventAccessTracker::start
#[kani::proof] #[kani::unwind(9)] fn k_tracker_event_start_l7() { start_contract::<7>(); }

// ---------------------------------------------------------------------------------------------------------------
// K.reader.event: BroadcastEvent<T>::try_read / EntityEvent<T>::{try_read,get_entity} (C03, C04).
// Contract: a reader returns Ok(own payload) iff the tracker is reacting AND the tracker's data entity carries
// THIS reader's kind (broadcast vs entity event) and THIS payload type; in every other case it returns Err:
// other kind, other type, not reacting (manual run / outside the run), data entity gone.
// Shape: loop-free; KIND of the data entity's component is a harness parameter (5 cases), flag / payload / target /
// which entity the tracker points at are symbolic.  T in {u32, u16}.
// ---------------------------------------------------------------------------------------------------------------
fn reader_contract<const KIND: u8, const AT_D: bool>()
{
    let mut world = World::new();
    let payload32: u32 = kani::any();
    let payload16: u16 = kani::any();
    let target = any_entity();
    let d = match KIND {
        0 => world.spawn(BroadcastEventData::new(payload32)).id(),
        1 => world.spawn(BroadcastEventData::new(payload16)).id(),
        2 => world.spawn(EntityEventData::new(target, payload32)).id(),
        3 => world.spawn(EntityEventData::new(target, payload16)).id(),
        _ => world.spawn_empty().id(),
    };
    let other = world.spawn_empty().id();
    let reacting: bool = kani::any();
    let points_at_d: bool = AT_D;   // structural case (which entity the tracker names) is enumerated, not symbolic
    let tracker = EventAccessTracker{ currently_reacting: reacting, data_entity: if points_at_d { d } else { other }, prepared: Vec::new() };
    let live = reacting && points_at_d;
    vlog!("REPLAY-INPUT kind={} reacting={} tracker_points_at_data_entity={} payload32={} payload16={}", KIND, reacting, points_at_d, payload32, payload16);

    let w: *mut World = &mut world;
    let b32 = BroadcastEvent::<u32>{ tracker: Res::verif_new(&tracker), data: Query::verif_new(unsafe { &mut *w }) };
    let b16 = BroadcastEvent::<u16>{ tracker: Res::verif_new(&tracker), data: Query::verif_new(unsafe { &mut *w }) };
    let e32 = EntityEvent::<u32>{ tracker: Res::verif_new(&tracker), data: Query::verif_new(unsafe { &mut *w }) };
    let e16 = EntityEvent::<u16>{ tracker: Res::verif_new(&tracker), data: Query::verif_new(unsafe { &mut *w }) };

    match b32.try_read() {
        Ok(v) => { assert!(live && KIND == 0, "BroadcastEvent::try_read: Ok only while reacting to a broadcast of this type"); assert!(*v == payload32, "BroadcastEvent::try_read: returns the causing event's own payload"); }
        Err(_) => assert!(!(live && KIND == 0), "BroadcastEvent::try_read: the run caused by a broadcast of this type can read it"),
    }
    match b16.try_read() {
        Ok(v) => { assert!(live && KIND == 1, "BroadcastEvent::try_read: Ok only while reacting to a broadcast of this type"); assert!(*v == payload16, "BroadcastEvent::try_read: returns the causing event's own payload"); }
        Err(_) => assert!(!(live && KIND == 1), "BroadcastEvent::try_read: the run caused by a broadcast of this type can read it"),
    }
    match e32.try_read() {
        Ok((t, v)) => { assert!(live && KIND == 2, "EntityEvent::try_read: Ok only while reacting to an entity event of this type"); assert!(t == target && *v == payload32, "EntityEvent::try_read: returns the causing event's own target and payload"); }
        Err(_) => assert!(!(live && KIND == 2), "EntityEvent::try_read: the run caused by an entity event of this type can read it"),
    }
    match e16.try_read() {
        Ok((t, v)) => { assert!(live && KIND == 3, "EntityEvent::try_read: Ok only while reacting to an entity event of this type"); assert!(t == target && *v == payload16, "EntityEvent::try_read: returns the causing event's own target and payload"); }
        Err(_) => assert!(!(live && KIND == 3), "EntityEvent::try_read: the run caused by an entity event of this type can read it"),
    }
    assert!(e32.get_entity().ok() == (if live && KIND == 2 { Some(target) } else { None }), "EntityEvent::get_entity: target of the causing event, else nothing");
    assert!(b32.is_empty() == !(live && KIND == 0), "BroadcastEvent::is_empty: negation of readability");
    assert!(e16.is_empty() == !(live && KIND == 3), "EntityEvent::is_empty: negation of readability");
    core::mem::forget(world);
}

//# id=K.reader.event.broadcast_u32.at props=C03,C04 strength=complete shape="loop-free; data entity holds broadcast_u32; tracker names the data entity; flag/payload/target symbolic" tier=quick fns=BroadcastEvent::try_read,BroadcastEvent::is_empty,EntityEvent::try_read,EntityEvent::get_entity,EntityEvent::is_empty
#[kani::proof] #[kani::unwind(6)] fn k_reader_event_kind0_at() { reader_contract::<0, true>(); }
//# id=K.reader.event.broadcast_u32.away props=C03,C04 strength=complete shape="loop-free; data entity holds broadcast_u32; tracker names another entity; flag/payload/target symbolic" tier=quick fns=BroadcastEvent::try_read,BroadcastEvent::is_empty,EntityEvent::try_read,EntityEvent::get_entity,EntityEvent::is_empty
#[kani::proof] #[kani::unwind(6)] fn k_reader_event_kind0_away() { reader_contract::<0, false>(); }
//# id=K.reader.event.broadcast_u16.at props=C03,C04 strength=complete shape="loop-free; data entity holds broadcast_u16; tracker names the data entity; flag/payload/target symbolic" tier=quick fns=BroadcastEvent::try_read,BroadcastEvent::is_empty,EntityEvent::try_read,EntityEvent::get_entity,EntityEvent::is_empty
#[kani::proof] #[kani::unwind(6)] fn k_reader_event_kind1_at() { reader_contract::<1, true>(); }
//# id=K.reader.event.broadcast_u16.away props=C03,C04 strength=complete shape="loop-free; data entity holds broadcast_u16; tracker names another entity; flag/payload/target symbolic" tier=quick fns=BroadcastEvent::try_read,BroadcastEvent::is_empty,EntityEvent::try_read,EntityEvent::get_entity,EntityEvent::is_empty
#[kani::proof] #[kani::unwind(6)] fn k_reader_event_kind1_away() { reader_contract::<1, false>(); }
//# id=K.reader.event.entity_u32.at props=C03,C04 strength=complete shape="loop-free; data entity holds entity_u32; tracker names the data entity; flag/payload/target symbolic" tier=quick fns=BroadcastEvent::try_read,BroadcastEvent::is_empty,EntityEvent::try_read,EntityEvent::get_entity,EntityEvent::is_empty
#[kani::proof] #[kani::unwind(6)] fn k_reader_event_kind2_at() { reader_contract::<2, true>(); }
//# id=K.reader.event.entity_u32.away props=C03,C04 strength=complete shape="loop-free; data entity holds entity_u32; tracker names another entity; flag/payload/target symbolic" tier=quick fns=BroadcastEvent::try_read,BroadcastEvent::is_empty,EntityEvent::try_read,EntityEvent::get_entity,EntityEvent::is_empty
#[kani::proof] #[kani::unwind(6)] fn k_reader_event_kind2_away() { reader_contract::<2, false>(); }
//# id=K.reader.event.entity_u16.at props=C03,C04 strength=complete shape="loop-free; data entity holds entity_u16; tracker names the data entity; flag/payload/target symbolic" tier=quick fns=BroadcastEvent::try_read,BroadcastEvent::is_empty,EntityEvent::try_read,EntityEvent::get_entity,EntityEvent::is_empty
#[kani::proof] #[kani::unwind(6)] fn k_reader_event_kind3_at() { reader_contract::<3, true>(); }
//# id=K.reader.event.entity_u16.away props=C03,C04 strength=complete shape="loop-free; data entity holds entity_u16; tracker names another entity; flag/payload/target symbolic" tier=quick fns=BroadcastEvent::try_read,BroadcastEvent::is_empty,EntityEvent::try_read,EntityEvent::get_entity,EntityEvent::is_empty
#[kani::proof] #[kani::unwind(6)] fn k_reader_event_kind3_away() { reader_contract::<3, false>(); }
//# id=K.reader.event.no_data.at props=C03,C04 strength=complete shape="loop-free; data entity holds no_data; tracker names the data entity; flag/payload/target symbolic" tier=quick fns=BroadcastEvent::try_read,BroadcastEvent::is_empty,EntityEvent::try_read,EntityEvent::get_entity,EntityEvent::is_empty
#[kani::proof] #[kani::unwind(6)] fn k_reader_event_kind4_at() { reader_contract::<4, true>(); }
//# id=K.reader.event.no_data.away props=C03,C04 strength=complete shape="loop-free; data entity holds no_data; tracker names another entity; flag/payload/target symbolic" tier=quick fns=BroadcastEvent::try_read,BroadcastEvent::is_empty,EntityEvent::try_read,EntityEvent::get_entity,EntityEvent::is_empty
#[kani::proof] #[kani::unwind(6)] fn k_reader_event_kind4_away() { reader_contract::<4, false>(); }
