//! Kani contracts for src/react/react_cache.rs (appended as child module `verif_contracts`).
//! Tables are built directly through the private fields (the register_* functions have their own obligations, Verus unit
//! `cache`); handles are `Persistent` unless a harness is about ref-counts.
use super::*;
include!("common.inc");

fn tid(k: u8) -> TypeId { match k { 0 => TypeId::of::<u8>(), 1 => TypeId::of::<u16>(), _ => TypeId::of::<u32>() } }
fn h(id: SystemCommand) -> ReactorHandle { ReactorHandle::Persistent(id) }
fn fixed_sys(i: u32) -> SystemCommand { SystemCommand(Entity::verif_new(1000 + i, 1)) }
/// id of the j-th entry of a list (absent list = empty list)
fn len_of(v: Option<&Vec<ReactorHandle>>) -> usize { match v { Some(v) => v.len(), None => 0 } }
fn id_at(v: Option<&Vec<ReactorHandle>>, j: usize) -> SystemCommand { v.unwrap()[j].sys_command() }
#[allow(dead_code)] fn dbg_list(v: Option<&Vec<ReactorHandle>>) -> Vec<u32> { match v { Some(v) => v.iter().map(|x| x.sys_command().0.index()).collect(), None => Vec::new() } }

/// the list `after` == `before` with the FIRST occurrence of `target` removed (all other entries in order); no occurrence => equal.
fn assert_first_removed(before: &[SystemCommand], after: Option<&Vec<ReactorHandle>>, target: SystemCommand) {
    let n = before.len();
    let mut first = n;
    let mut i = 0;
    while i < n { if first == n && before[i] == target { first = i; } i += 1; }
    if first == n {
        assert!(len_of(after) == n, "revoke_*: an id that is not in the list => list unchanged");
        let mut j = 0;
        while j < n { assert!(id_at(after, j) == before[j], "revoke_*: an id that is not in the list => list unchanged"); j += 1; }
    } else {
        assert!(len_of(after) == n - 1, "revoke_*: exactly one entry (the first of the revoked id) is removed from the named list");
        let mut j = 0;
        while j + 1 < n { let s = if j < first { j } else { j + 1 }; assert!(id_at(after, j) == before[s], "revoke_*: the entries other than the first one of the revoked id stay, in order"); j += 1; }
    }
}
fn assert_single(after: Option<&Vec<ReactorHandle>>, target: SystemCommand, what: &'static str) {
    assert!(len_of(after) == 1, "{}", what);
    assert!(id_at(after, 0) == target, "{}", what);
}
fn one(t: SystemCommand) -> Vec<ReactorHandle> { let mut v = Vec::with_capacity(1); v.push(h(t)); v }

// ---------------------------------------------------------------------------------------------------------------
// K.cache.revoke.<table>: revoke_X(key, id) deletes exactly the FIRST entry of `id` from the list under `key` of table X;
// the other entries of that list keep their order; every other key and every other table is untouched; revoking an id
// or key that is not there changes nothing (C06; C01: neighbours keep working).
// Shape: list length L, every content (ids symbolic); a neighbour key (simple tables; for the TypeId-keyed ones only at L<=1 - CBMC cost) / the two sibling lists of the same
// component (component table) hold one entry with the SAME id.
// TABLE: 0 any_entity_event, 1 resource, 2 broadcast, 3 despawn(entity key), 4..6 component insertion/mutation/removal.
// ---------------------------------------------------------------------------------------------------------------
fn revoke_contract<const TABLE: u8, const L: usize, const NEIGH: bool>()
{
    let mut cache = ReactCache::default();
    let target = any_sys();
    let key = tid(0);
    let other_key = tid(1);
    let ekey = Entity::verif_new(7, 1);
    let other_ekey = Entity::verif_new(8, 1);
    let mut before = [SystemCommand(Entity::PLACEHOLDER); L];
    let mut list: Vec<ReactorHandle> = Vec::with_capacity(L);
    let mut i = 0;
    while i < L { let s = any_sys(); before[i] = s; list.push(h(s)); i += 1; }
    // the table under test holds `list` under `key`; every other list under `key`, and the neighbour key, hold [target]
    if TABLE == 0 { cache.any_entity_event_reactors.insert(key, list); if NEIGH { cache.any_entity_event_reactors.insert(other_key, one(target)); } }
    else if TABLE == 1 { cache.resource_reactors.insert(key, list); if NEIGH { cache.resource_reactors.insert(other_key, one(target)); } }
    else if TABLE == 2 { cache.broadcast_reactors.insert(key, list); if NEIGH { cache.broadcast_reactors.insert(other_key, one(target)); } }
    else if TABLE == 3 { cache.despawn_reactors.insert(ekey, list); cache.despawn_reactors.insert(other_ekey, one(target)); }
    else {
        let mut cr = ComponentReactors{ insertion_callbacks: one(target), mutation_callbacks: one(target), removal_callbacks: one(target) };
        if TABLE == 4 { cr.insertion_callbacks = list; } else if TABLE == 5 { cr.mutation_callbacks = list; } else { cr.removal_callbacks = list; }
        cache.component_reactors.insert(key, cr);
    }
    vlog!("REPLAY-INPUT table={} list={:?} revoke id={:?}", TABLE, before.iter().map(|s| s.0.index()).collect::<Vec<_>>(), target.0.index());

    match TABLE {
        0 => cache.revoke_any_entity_event_reactor(key, target),
        1 => cache.revoke_resource_mutation_reactor(key, target),
        2 => cache.revoke_broadcast_reactor(key, target),
        3 => cache.revoke_despawn_reactor(ekey, target),
        4 => cache.revoke_component_reactor(EntityReactionType::Insertion(key), target),
        5 => cache.revoke_component_reactor(EntityReactionType::Mutation(key), target),
        _ => cache.revoke_component_reactor(EntityReactionType::Removal(key), target),
    }

    const OTHER: &str = "revoke_*: lists of other tables / other reaction kinds / other keys are untouched";
    if TABLE == 0 {
        vlog!("REPLAY-OUTPUT list={:?}", dbg_list(cache.any_entity_event_reactors.get(&key)));
        assert_first_removed(&before, cache.any_entity_event_reactors.get(&key), target);
        if NEIGH { assert_single(cache.any_entity_event_reactors.get(&other_key), target, OTHER); }
    } else if TABLE == 1 {
        vlog!("REPLAY-OUTPUT list={:?}", dbg_list(cache.resource_reactors.get(&key)));
        assert_first_removed(&before, cache.resource_reactors.get(&key), target);
        if NEIGH { assert_single(cache.resource_reactors.get(&other_key), target, OTHER); }
    } else if TABLE == 2 {
        vlog!("REPLAY-OUTPUT list={:?}", dbg_list(cache.broadcast_reactors.get(&key)));
        assert_first_removed(&before, cache.broadcast_reactors.get(&key), target);
        if NEIGH { assert_single(cache.broadcast_reactors.get(&other_key), target, OTHER); }
    } else if TABLE == 3 {
        vlog!("REPLAY-OUTPUT list={:?}", dbg_list(cache.despawn_reactors.get(&ekey)));
        assert_first_removed(&before, cache.despawn_reactors.get(&ekey), target);
        assert_single(cache.despawn_reactors.get(&other_ekey), target, OTHER);
    } else {
        let cr = cache.component_reactors.get(&key);
        let (i, m, r) = (cr.map(|c| &c.insertion_callbacks), cr.map(|c| &c.mutation_callbacks), cr.map(|c| &c.removal_callbacks));
        vlog!("REPLAY-OUTPUT insertion={:?} mutation={:?} removal={:?}", dbg_list(i), dbg_list(m), dbg_list(r));
        if TABLE == 4 { assert_first_removed(&before, i, target); } else { assert_single(i, target, OTHER); }
        if TABLE == 5 { assert_first_removed(&before, m, target); } else { assert_single(m, target, OTHER); }
        if TABLE == 6 { assert_first_removed(&before, r, target); } else { assert_single(r, target, OTHER); }
    }
    core::mem::forget(cache);
}

//# id=K.cache.revoke.any_entity_event.L0 props=C06,C01 strength=bounded shape="list of length L=0 under the key, all ids symbolic; neighbour key and the 6 other lists hold one entry of the same id" tier=quick fns=ReactCache::revoke_any_entity_event_reactor
#[kani::proof] #[kani::unwind(6)] fn k_cache_revoke_any_entity_event_l0() { revoke_contract::<0, 0, true>(); }
//# id=K.cache.revoke.any_entity_event.L1 props=C06,C01 strength=bounded shape="list of length L=1 under the key, all ids symbolic; neighbour key and the 6 other lists hold one entry of the same id" tier=quick fns=ReactCache::revoke_any_entity_event_reactor
#[kani::proof] #[kani::unwind(6)] fn k_cache_revoke_any_entity_event_l1() { revoke_contract::<0, 1, true>(); }
//# id=K.cache.revoke.any_entity_event.L2 props=C06,C01 strength=bounded shape="list of length L=2 under the key, all ids symbolic; neighbour key and the 6 other lists hold one entry of the same id" tier=quick fns=ReactCache::revoke_any_entity_event_reactor
#[kani::proof] #[kani::unwind(6)] fn k_cache_revoke_any_entity_event_l2() { revoke_contract::<0, 2, false>(); }
//# id=K.cache.revoke.any_entity_event.L3 props=C06,C01 strength=bounded shape="list of length L=3 under the key, all ids symbolic; neighbour key and the 6 other lists hold one entry of the same id" tier=thorough fns=ReactCache::revoke_any_entity_event_reactor
#[kani::proof] #[kani::unwind(6)] fn k_cache_revoke_any_entity_event_l3() { revoke_contract::<0, 3, false>(); }
//# id=K.cache.revoke.resource.L0 props=C06,C01 strength=bounded shape="list of length L=0 under the key, all ids symbolic; neighbour key and the 6 other lists hold one entry of the same id" tier=quick fns=ReactCache::revoke_resource_mutation_reactor
#[kani::proof] #[kani::unwind(6)] fn k_cache_revoke_resource_l0() { revoke_contract::<1, 0, true>(); }
//# id=K.cache.revoke.resource.L1 props=C06,C01 strength=bounded shape="list of length L=1 under the key, all ids symbolic; neighbour key and the 6 other lists hold one entry of the same id" tier=quick fns=ReactCache::revoke_resource_mutation_reactor
#[kani::proof] #[kani::unwind(6)] fn k_cache_revoke_resource_l1() { revoke_contract::<1, 1, true>(); }
//# id=K.cache.revoke.resource.L2 props=C06,C01 strength=bounded shape="list of length L=2 under the key, all ids symbolic; neighbour key and the 6 other lists hold one entry of the same id" tier=quick fns=ReactCache::revoke_resource_mutation_reactor
#[kani::proof] #[kani::unwind(6)] fn k_cache_revoke_resource_l2() { revoke_contract::<1, 2, false>(); }
//# id=K.cache.revoke.resource.L3 props=C06,C01 strength=bounded shape="list of length L=3 under the key, all ids symbolic; neighbour key and the 6 other lists hold one entry of the same id" tier=thorough fns=ReactCache::revoke_resource_mutation_reactor
#[kani::proof] #[kani::unwind(6)] fn k_cache_revoke_resource_l3() { revoke_contract::<1, 3, false>(); }
//# id=K.cache.revoke.broadcast.L0 props=C06,C01 strength=bounded shape="list of length L=0 under the key, all ids symbolic; neighbour key and the 6 other lists hold one entry of the same id" tier=quick fns=ReactCache::revoke_broadcast_reactor
#[kani::proof] #[kani::unwind(6)] fn k_cache_revoke_broadcast_l0() { revoke_contract::<2, 0, true>(); }
//# id=K.cache.revoke.broadcast.L1 props=C06,C01 strength=bounded shape="list of length L=1 under the key, all ids symbolic; neighbour key and the 6 other lists hold one entry of the same id" tier=quick fns=ReactCache::revoke_broadcast_reactor
#[kani::proof] #[kani::unwind(6)] fn k_cache_revoke_broadcast_l1() { revoke_contract::<2, 1, true>(); }
//# id=K.cache.revoke.broadcast.L2 props=C06,C01 strength=bounded shape="list of length L=2 under the key, all ids symbolic; neighbour key and the 6 other lists hold one entry of the same id" tier=quick fns=ReactCache::revoke_broadcast_reactor
#[kani::proof] #[kani::unwind(6)] fn k_cache_revoke_broadcast_l2() { revoke_contract::<2, 2, false>(); }
//# id=K.cache.revoke.broadcast.L3 props=C06,C01 strength=bounded shape="list of length L=3 under the key, all ids symbolic; neighbour key and the 6 other lists hold one entry of the same id" tier=quick fns=ReactCache::revoke_broadcast_reactor
#[kani::proof] #[kani::unwind(6)] fn k_cache_revoke_broadcast_l3() { revoke_contract::<2, 3, false>(); }
//# id=K.cache.revoke.despawn.L0 props=C06,C01 strength=bounded shape="list of length L=0 under the key, all ids symbolic; neighbour key and the 6 other lists hold one entry of the same id" tier=quick fns=ReactCache::revoke_despawn_reactor
#[kani::proof] #[kani::unwind(6)] fn k_cache_revoke_despawn_l0() { revoke_contract::<3, 0, true>(); }
//# id=K.cache.revoke.despawn.L1 props=C06,C01 strength=bounded shape="list of length L=1 under the key, all ids symbolic; neighbour key and the 6 other lists hold one entry of the same id" tier=quick fns=ReactCache::revoke_despawn_reactor
#[kani::proof] #[kani::unwind(6)] fn k_cache_revoke_despawn_l1() { revoke_contract::<3, 1, true>(); }
//# id=K.cache.revoke.despawn.L2 props=C06,C01 strength=bounded shape="list of length L=2 under the key, all ids symbolic; neighbour key and the 6 other lists hold one entry of the same id" tier=quick fns=ReactCache::revoke_despawn_reactor
#[kani::proof] #[kani::unwind(6)] fn k_cache_revoke_despawn_l2() { revoke_contract::<3, 2, true>(); }
//# id=K.cache.revoke.despawn.L3 props=C06,C01 strength=bounded shape="list of length L=3 under the key, all ids symbolic; neighbour key and the 6 other lists hold one entry of the same id" tier=thorough fns=ReactCache::revoke_despawn_reactor
#[kani::proof] #[kani::unwind(6)] fn k_cache_revoke_despawn_l3() { revoke_contract::<3, 3, true>(); }
//# id=K.cache.revoke.comp_insertion.L0 props=C06,C01 strength=bounded shape="list of length L=0 under the key, all ids symbolic; neighbour key and the 6 other lists hold one entry of the same id" tier=quick fns=ReactCache::revoke_component_reactor
#[kani::proof] #[kani::unwind(6)] fn k_cache_revoke_comp_insertion_l0() { revoke_contract::<4, 0, true>(); }
//# id=K.cache.revoke.comp_insertion.L1 props=C06,C01 strength=bounded shape="list of length L=1 under the key, all ids symbolic; neighbour key and the 6 other lists hold one entry of the same id" tier=quick fns=ReactCache::revoke_component_reactor
#[kani::proof] #[kani::unwind(6)] fn k_cache_revoke_comp_insertion_l1() { revoke_contract::<4, 1, true>(); }
//# id=K.cache.revoke.comp_insertion.L2 props=C06,C01 strength=bounded shape="list of length L=2 under the key, all ids symbolic; neighbour key and the 6 other lists hold one entry of the same id" tier=quick fns=ReactCache::revoke_component_reactor
#[kani::proof] #[kani::unwind(6)] fn k_cache_revoke_comp_insertion_l2() { revoke_contract::<4, 2, true>(); }
//# id=K.cache.revoke.comp_insertion.L3 props=C06,C01 strength=bounded shape="list of length L=3 under the key, all ids symbolic; neighbour key and the 6 other lists hold one entry of the same id" tier=quick fns=ReactCache::revoke_component_reactor
#[kani::proof] #[kani::unwind(6)] fn k_cache_revoke_comp_insertion_l3() { revoke_contract::<4, 3, true>(); }
//# id=K.cache.revoke.comp_mutation.L0 props=C06,C01 strength=bounded shape="list of length L=0 under the key, all ids symbolic; neighbour key and the 6 other lists hold one entry of the same id" tier=quick fns=ReactCache::revoke_component_reactor
#[kani::proof] #[kani::unwind(6)] fn k_cache_revoke_comp_mutation_l0() { revoke_contract::<5, 0, true>(); }
//# id=K.cache.revoke.comp_mutation.L1 props=C06,C01 strength=bounded shape="list of length L=1 under the key, all ids symbolic; neighbour key and the 6 other lists hold one entry of the same id" tier=quick fns=ReactCache::revoke_component_reactor
#[kani::proof] #[kani::unwind(6)] fn k_cache_revoke_comp_mutation_l1() { revoke_contract::<5, 1, true>(); }
//# id=K.cache.revoke.comp_mutation.L2 props=C06,C01 strength=bounded shape="list of length L=2 under the key, all ids symbolic; neighbour key and the 6 other lists hold one entry of the same id" tier=quick fns=ReactCache::revoke_component_reactor
#[kani::proof] #[kani::unwind(6)] fn k_cache_revoke_comp_mutation_l2() { revoke_contract::<5, 2, true>(); }
//# id=K.cache.revoke.comp_mutation.L3 props=C06,C01 strength=bounded shape="list of length L=3 under the key, all ids symbolic; neighbour key and the 6 other lists hold one entry of the same id" tier=thorough fns=ReactCache::revoke_component_reactor
#[kani::proof] #[kani::unwind(6)] fn k_cache_revoke_comp_mutation_l3() { revoke_contract::<5, 3, true>(); }
//# id=K.cache.revoke.comp_removal.L0 props=C06,C01 strength=bounded shape="list of length L=0 under the key, all ids symbolic; neighbour key and the 6 other lists hold one entry of the same id" tier=quick fns=ReactCache::revoke_component_reactor
#[kani::proof] #[kani::unwind(6)] fn k_cache_revoke_comp_removal_l0() { revoke_contract::<6, 0, true>(); }
//# id=K.cache.revoke.comp_removal.L1 props=C06,C01 strength=bounded shape="list of length L=1 under the key, all ids symbolic; neighbour key and the 6 other lists hold one entry of the same id" tier=quick fns=ReactCache::revoke_component_reactor
#[kani::proof] #[kani::unwind(6)] fn k_cache_revoke_comp_removal_l1() { revoke_contract::<6, 1, true>(); }
//# id=K.cache.revoke.comp_removal.L2 props=C06,C01 strength=bounded shape="list of length L=2 under the key, all ids symbolic; neighbour key and the 6 other lists hold one entry of the same id" tier=quick fns=ReactCache::revoke_component_reactor
#[kani::proof] #[kani::unwind(6)] fn k_cache_revoke_comp_removal_l2() { revoke_contract::<6, 2, true>(); }
//# id=K.cache.revoke.comp_removal.L3 props=C06,C01 strength=bounded shape="list of length L=3 under the key, all ids symbolic; neighbour key and the 6 other lists hold one entry of the same id" tier=thorough fns=ReactCache::revoke_component_reactor
#[kani::proof] #[kani::unwind(6)] fn k_cache_revoke_comp_removal_l3() { revoke_contract::<6, 3, true>(); }
