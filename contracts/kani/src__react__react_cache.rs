//! Kani contracts for src/react/react_cache.rs (appended as child module `verif_contracts`).
//! Tables are built directly through the private fields (the register_* functions have their own obligations, Verus unit
//! `cache`); handles are `Persistent` unless a harness is about ref-counts.
use super::*;
include!("common.inc");

// read access for contract modules of other files
impl ReactCache {
    pub(crate) fn verif_despawn_len(&self, e: Entity) -> usize { match self.despawn_reactors.get(&e) { Some(v) => v.len(), None => 0 } }
    /// is a despawn report pending on the channel? (consumes it)
    pub(crate) fn verif_despawn_pending(&self) -> bool { self.despawn_receiver.try_recv().is_ok() }
}

fn tid(k: u8) -> TypeId { match k { 0 => TypeId::of::<u8>(), 1 => TypeId::of::<u16>(), _ => TypeId::of::<u32>() } }
fn h(id: SystemCommand) -> ReactorHandle { ReactorHandle::Persistent(id) }
fn fixed_sys(i: u32) -> SystemCommand { SystemCommand(Entity::verif_new(1000 + i, 1)) }
/// id of the j-th entry of a list (absent list = empty list)
fn len_of(v: Option<&Vec<ReactorHandle>>) -> usize { match v { Some(v) => v.len(), None => 0 } }
fn id_at(v: Option<&Vec<ReactorHandle>>, j: usize) -> SystemCommand { v.unwrap()[j].sys_command() }
#[allow(dead_code)] fn dbg_list(v: Option<&Vec<ReactorHandle>>) -> Vec<u32> { match v { Some(v) => v.iter().map(|x| x.sys_command().0.index()).collect(), None => Vec::new() } }

/// the list `after` == `before` minus ONE occurrence of `target` (none if it does not occur), compared as MULTISETS:
/// the properties do not promise an order among the reactors of one trigger, so a harmless reordering must not alarm.
fn count_arr(v: &[SystemCommand], n: usize, x: SystemCommand) -> usize { let mut c = 0; let mut j = 0; while j < n { if v[j] == x { c += 1; } j += 1; } c }
fn assert_first_removed(before: &[SystemCommand], after: Option<&Vec<ReactorHandle>>, target: SystemCommand) {
    let n = before.len();
    // copy the ids out of the list once (cheap for CBMC: no repeated Vec indexing in the counting loops)
    let m = len_of(after);
    assert!(m <= n, "revoke_*: never adds entries");
    let mut ids = [SystemCommand(Entity::PLACEHOLDER); 5];
    let mut j = 0;
    while j < m { ids[j] = id_at(after, j); j += 1; }
    let occurs = count_arr(before, n, target);
    if occurs == 0 { assert!(m == n, "revoke_*: an id that is not in the list => list unchanged"); }
    else { assert!(m == n - 1, "revoke_*: exactly one entry of the revoked id is removed from the named list"); }
    assert!(count_arr(&ids, m, target) == (if occurs == 0 { 0 } else { occurs - 1 }), "revoke_*: exactly one entry of the revoked id is removed (a second registration of the same reactor stays)");
    let mut j = 0;
    while j < n {
        if before[j] != target { assert!(count_arr(&ids, m, before[j]) == count_arr(before, n, before[j]), "revoke_*: the entries of every other reactor stay"); }
        j += 1;
    }
}
fn assert_single(after: Option<&Vec<ReactorHandle>>, target: SystemCommand, _what: &'static str) {
    assert!(len_of(after) == 1, "revoke_*: lists of other tables / other reaction kinds / other keys are untouched");
    assert!(id_at(after, 0) == target, "revoke_*: lists of other tables / other reaction kinds / other keys are untouched");
}
fn one(t: SystemCommand) -> Vec<ReactorHandle> { let mut v = Vec::with_capacity(1); v.push(h(t)); v }

// ---------------------------------------------------------------------------------------------------------------
// K.cache.revoke.<table>: revoke_X(key, id) deletes exactly ONE entry of `id` from the list under `key` of table X;
// all other entries of that list stay (multiset comparison); every other key and every other table is untouched; revoking an id
// or key that is not there changes nothing (C06; C01: neighbours keep working).
// Shape: list length L, every content (ids symbolic); a neighbour key and, under the SAME key, a list of a sibling table keyed by the same type id (simple tables; for the TypeId-keyed ones only at L<=1 - CBMC cost) / the two sibling lists of the same
// component (component table) hold one entry with the SAME id.
// TABLE: 0 any_entity_event, 1 resource, 2 broadcast, 3 despawn(entity key), 4..6 component insertion/mutation/removal.
// ---------------------------------------------------------------------------------------------------------------
fn revoke_contract<const TABLE: u8, const L: usize, const NEIGH: bool, const SIB: bool>()
{
    let mut cache = ReactCache::default();
    let target = any_sys();
    let key = tid(0);
    let other_key = tid(1);
    let ekey = Entity::verif_new(7, 1);
    let other_ekey = Entity::verif_new(8, 1);
    let mut before = [SystemCommand(Entity::PLACEHOLDER); L];
    let mut list: Vec<ReactorHandle> = Vec::with_capacity(L);
    let mut i = 0;
    while i < L { let s = any_sys(); before[i] = s; list.push(h(s)); i += 1; }
    // the table under test holds `list` under `key`; every other list under `key`, and the neighbour key, hold [target]
    if TABLE == 0 { cache.any_entity_event_reactors.insert(key, list); if NEIGH { cache.any_entity_event_reactors.insert(other_key, one(target)); } if SIB { cache.broadcast_reactors.insert(key, one(target)); } }
    else if TABLE == 1 { cache.resource_reactors.insert(key, list); if NEIGH { cache.resource_reactors.insert(other_key, one(target)); } if SIB { cache.broadcast_reactors.insert(key, one(target)); } }
    else if TABLE == 2 { cache.broadcast_reactors.insert(key, list); if NEIGH { cache.broadcast_reactors.insert(other_key, one(target)); } if SIB { cache.any_entity_event_reactors.insert(key, one(target)); } }
    else if TABLE == 3 { cache.despawn_reactors.insert(ekey, list); cache.despawn_reactors.insert(other_ekey, one(target)); }
    else {
        let mut cr = ComponentReactors{ insertion_callbacks: one(target), mutation_callbacks: one(target), removal_callbacks: one(target) };
        if TABLE == 4 { cr.insertion_callbacks = list; } else if TABLE == 5 { cr.mutation_callbacks = list; } else { cr.removal_callbacks = list; }
        cache.component_reactors.insert(key, cr);
    }
    vlog!("REPLAY-INPUT table={} list={:?} revoke id={:?}", TABLE, before.iter().map(|s| s.0.index()).collect::<Vec<_>>(), target.0.index());

    match TABLE {
        0 => cache.revoke_any_entity_event_reactor(key, target),
        1 => cache.revoke_resource_mutation_reactor(key, target),
        2 => cache.revoke_broadcast_reactor(key, target),
        3 => cache.revoke_despawn_reactor(ekey, target),
        4 => cache.revoke_component_reactor(EntityReactionType::Insertion(key), target),
        5 => cache.revoke_component_reactor(EntityReactionType::Mutation(key), target),
        _ => cache.revoke_component_reactor(EntityReactionType::Removal(key), target),
    }

    const OTHER: &str = "revoke_*: lists of other tables / other reaction kinds / other keys are untouched";
    if TABLE == 0 {
        vlog!("REPLAY-OUTPUT list={:?}", dbg_list(cache.any_entity_event_reactors.get(&key)));
        assert_first_removed(&before, cache.any_entity_event_reactors.get(&key), target);
        if NEIGH { assert_single(cache.any_entity_event_reactors.get(&other_key), target, OTHER); } if SIB { assert_single(cache.broadcast_reactors.get(&key), target, OTHER); }
    } else if TABLE == 1 {
        vlog!("REPLAY-OUTPUT list={:?}", dbg_list(cache.resource_reactors.get(&key)));
        assert_first_removed(&before, cache.resource_reactors.get(&key), target);
        if NEIGH { assert_single(cache.resource_reactors.get(&other_key), target, OTHER); } if SIB { assert_single(cache.broadcast_reactors.get(&key), target, OTHER); }
    } else if TABLE == 2 {
        vlog!("REPLAY-OUTPUT list={:?}", dbg_list(cache.broadcast_reactors.get(&key)));
        assert_first_removed(&before, cache.broadcast_reactors.get(&key), target);
        if NEIGH { assert_single(cache.broadcast_reactors.get(&other_key), target, OTHER); } if SIB { assert_single(cache.any_entity_event_reactors.get(&key), target, OTHER); }
    } else if TABLE == 3 {
        vlog!("REPLAY-OUTPUT list={:?}", dbg_list(cache.despawn_reactors.get(&ekey)));
        assert_first_removed(&before, cache.despawn_reactors.get(&ekey), target);
        assert_single(cache.despawn_reactors.get(&other_ekey), target, OTHER);
    } else {
        let cr = cache.component_reactors.get(&key);
        let (i, m, r) = (cr.map(|c| &c.insertion_callbacks), cr.map(|c| &c.mutation_callbacks), cr.map(|c| &c.removal_callbacks));
        vlog!("REPLAY-OUTPUT insertion={:?} mutation={:?} removal={:?}", dbg_list(i), dbg_list(m), dbg_list(r));
        if TABLE == 4 { assert_first_removed(&before, i, target); } else { assert_single(i, target, OTHER); }
        if TABLE == 5 { assert_first_removed(&before, m, target); } else { assert_single(m, target, OTHER); }
        if TABLE == 6 { assert_first_removed(&before, r, target); } else { assert_single(r, target, OTHER); }
    }
    core::mem::forget(cache);
}

//# id=K.cache.revoke.any_entity_event.L0 props=C06,C01 strength=bounded shape="list of length L=0 under the key, all ids symbolic; neighbour key and the 6 other lists hold one entry of the same id" tier=thorough fns=ReactCache::revoke_any_entity_event_reactor
#[kani::proof] #[kani::unwind(6)] fn k_cache_revoke_any_entity_event_l0() { revoke_contract::<0, 0, true, false>(); }
//# id=K.cache.revoke.any_entity_event.L1 props=C06,C01 strength=bounded shape="list of length L=1 under the key, all ids symbolic; neighbour key and the 6 other lists hold one entry of the same id" tier=quick fns=ReactCache::revoke_any_entity_event_reactor
#[kani::proof] #[kani::unwind(6)] fn k_cache_revoke_any_entity_event_l1() { revoke_contract::<0, 1, true, false>(); }
//# id=K.cache.revoke.any_entity_event.L2 props=C06,C01 strength=bounded shape="list of length L=2 under the key, all ids symbolic; neighbour key and the 6 other lists hold one entry of the same id" tier=quick fns=ReactCache::revoke_any_entity_event_reactor
#[kani::proof] #[kani::unwind(6)] fn k_cache_revoke_any_entity_event_l2() { revoke_contract::<0, 2, false, false>(); }
//# id=K.cache.revoke.any_entity_event.L3 props=C06,C01 strength=bounded shape="list of length L=3 under the key, all ids symbolic; neighbour key and the 6 other lists hold one entry of the same id" tier=thorough fns=ReactCache::revoke_any_entity_event_reactor
#[kani::proof] #[kani::unwind(6)] fn k_cache_revoke_any_entity_event_l3() { revoke_contract::<0, 3, false, false>(); }
//# id=K.cache.revoke.resource.L0 props=C06,C01 strength=bounded shape="list of length L=0 under the key, all ids symbolic; neighbour key and the 6 other lists hold one entry of the same id" tier=thorough fns=ReactCache::revoke_resource_mutation_reactor
#[kani::proof] #[kani::unwind(6)] fn k_cache_revoke_resource_l0() { revoke_contract::<1, 0, true, false>(); }
//# id=K.cache.revoke.resource.L1 props=C06,C01 strength=bounded shape="list of length L=1 under the key, all ids symbolic; neighbour key and the 6 other lists hold one entry of the same id" tier=quick fns=ReactCache::revoke_resource_mutation_reactor
#[kani::proof] #[kani::unwind(6)] fn k_cache_revoke_resource_l1() { revoke_contract::<1, 1, true, false>(); }
//# id=K.cache.revoke.resource.L2 props=C06,C01 strength=bounded shape="list of length L=2 under the key, all ids symbolic; neighbour key and the 6 other lists hold one entry of the same id" tier=quick fns=ReactCache::revoke_resource_mutation_reactor
#[kani::proof] #[kani::unwind(6)] fn k_cache_revoke_resource_l2() { revoke_contract::<1, 2, false, false>(); }
//# id=K.cache.revoke.resource.L3 props=C06,C01 strength=bounded shape="list of length L=3 under the key, all ids symbolic; neighbour key and the 6 other lists hold one entry of the same id" tier=thorough fns=ReactCache::revoke_resource_mutation_reactor
#[kani::proof] #[kani::unwind(6)] fn k_cache_revoke_resource_l3() { revoke_contract::<1, 3, false, false>(); }
//# id=K.cache.revoke.broadcast.L0 props=C06,C01 strength=bounded shape="list of length L=0 under the key, all ids symbolic; neighbour key and the 6 other lists hold one entry of the same id" tier=thorough fns=ReactCache::revoke_broadcast_reactor
#[kani::proof] #[kani::unwind(6)] fn k_cache_revoke_broadcast_l0() { revoke_contract::<2, 0, true, false>(); }
//# id=K.cache.revoke.broadcast.L1 props=C06,C01 strength=bounded shape="list of length L=1 under the key, all ids symbolic; neighbour key and the 6 other lists hold one entry of the same id" tier=quick fns=ReactCache::revoke_broadcast_reactor
#[kani::proof] #[kani::unwind(6)] fn k_cache_revoke_broadcast_l1() { revoke_contract::<2, 1, true, false>(); }
//# id=K.cache.revoke.broadcast.L2 props=C06,C01 strength=bounded shape="list of length L=2 under the key, all ids symbolic; neighbour key and the 6 other lists hold one entry of the same id" tier=quick fns=ReactCache::revoke_broadcast_reactor
#[kani::proof] #[kani::unwind(6)] fn k_cache_revoke_broadcast_l2() { revoke_contract::<2, 2, false, false>(); }
//# id=K.cache.revoke.broadcast.L3 props=C06,C01 strength=bounded shape="list of length L=3 under the key, all ids symbolic; neighbour key and the 6 other lists hold one entry of the same id" tier=thorough fns=ReactCache::revoke_broadcast_reactor
#[kani::proof] #[kani::unwind(6)] fn k_cache_revoke_broadcast_l3() { revoke_contract::<2, 3, false, false>(); }
//# id=K.cache.revoke.despawn.L0 props=C06,C01 strength=bounded shape="list of length L=0 under the key, all ids symbolic; neighbour key and the 6 other lists hold one entry of the same id" tier=thorough fns=ReactCache::revoke_despawn_reactor
#[kani::proof] #[kani::unwind(6)] fn k_cache_revoke_despawn_l0() { revoke_contract::<3, 0, true, false>(); }
//# id=K.cache.revoke.despawn.L1 props=C06,C01 strength=bounded shape="list of length L=1 under the key, all ids symbolic; neighbour key and the 6 other lists hold one entry of the same id" tier=quick fns=ReactCache::revoke_despawn_reactor
#[kani::proof] #[kani::unwind(6)] fn k_cache_revoke_despawn_l1() { revoke_contract::<3, 1, true, false>(); }
//# id=K.cache.revoke.despawn.L2 props=C06,C01 strength=bounded shape="list of length L=2 under the key, all ids symbolic; neighbour key and the 6 other lists hold one entry of the same id" tier=quick fns=ReactCache::revoke_despawn_reactor
#[kani::proof] #[kani::unwind(6)] fn k_cache_revoke_despawn_l2() { revoke_contract::<3, 2, true, false>(); }
//# id=K.cache.revoke.despawn.L3 props=C06,C01 strength=bounded shape="list of length L=3 under the key, all ids symbolic; neighbour key and the 6 other lists hold one entry of the same id" tier=thorough fns=ReactCache::revoke_despawn_reactor
#[kani::proof] #[kani::unwind(6)] fn k_cache_revoke_despawn_l3() { revoke_contract::<3, 3, true, false>(); }
//# id=K.cache.revoke.comp_insertion.L0 props=C06,C01,C07 strength=bounded shape="list of length L=0 under the key, all ids symbolic; neighbour key and the 6 other lists hold one entry of the same id" tier=thorough fns=ReactCache::revoke_component_reactor
#[kani::proof] #[kani::unwind(6)] fn k_cache_revoke_comp_insertion_l0() { revoke_contract::<4, 0, true, false>(); }
//# id=K.cache.revoke.comp_insertion.L1 props=C06,C01,C07 strength=bounded shape="list of length L=1 under the key, all ids symbolic; neighbour key and the 6 other lists hold one entry of the same id" tier=quick fns=ReactCache::revoke_component_reactor
#[kani::proof] #[kani::unwind(6)] fn k_cache_revoke_comp_insertion_l1() { revoke_contract::<4, 1, true, false>(); }
//# id=K.cache.revoke.comp_insertion.L2 props=C06,C01,C07 strength=bounded shape="list of length L=2 under the key, all ids symbolic; neighbour key and the 6 other lists hold one entry of the same id" tier=quick fns=ReactCache::revoke_component_reactor
#[kani::proof] #[kani::unwind(6)] fn k_cache_revoke_comp_insertion_l2() { revoke_contract::<4, 2, true, false>(); }
//# id=K.cache.revoke.comp_insertion.L3 props=C06,C01,C07 strength=bounded shape="list of length L=3 under the key, all ids symbolic; neighbour key and the 6 other lists hold one entry of the same id" tier=thorough fns=ReactCache::revoke_component_reactor
#[kani::proof] #[kani::unwind(6)] fn k_cache_revoke_comp_insertion_l3() { revoke_contract::<4, 3, true, false>(); }
//# id=K.cache.revoke.comp_mutation.L0 props=C06,C01,C07 strength=bounded shape="list of length L=0 under the key, all ids symbolic; neighbour key and the 6 other lists hold one entry of the same id" tier=thorough fns=ReactCache::revoke_component_reactor
#[kani::proof] #[kani::unwind(6)] fn k_cache_revoke_comp_mutation_l0() { revoke_contract::<5, 0, true, false>(); }
//# id=K.cache.revoke.comp_mutation.L1 props=C06,C01,C07 strength=bounded shape="list of length L=1 under the key, all ids symbolic; neighbour key and the 6 other lists hold one entry of the same id" tier=quick fns=ReactCache::revoke_component_reactor
#[kani::proof] #[kani::unwind(6)] fn k_cache_revoke_comp_mutation_l1() { revoke_contract::<5, 1, true, false>(); }
//# id=K.cache.revoke.comp_mutation.L2 props=C06,C01,C07 strength=bounded shape="list of length L=2 under the key, all ids symbolic; neighbour key and the 6 other lists hold one entry of the same id" tier=quick fns=ReactCache::revoke_component_reactor
#[kani::proof] #[kani::unwind(6)] fn k_cache_revoke_comp_mutation_l2() { revoke_contract::<5, 2, true, false>(); }
//# id=K.cache.revoke.comp_mutation.L3 props=C06,C01,C07 strength=bounded shape="list of length L=3 under the key, all ids symbolic; neighbour key and the 6 other lists hold one entry of the same id" tier=thorough fns=ReactCache::revoke_component_reactor
#[kani::proof] #[kani::unwind(6)] fn k_cache_revoke_comp_mutation_l3() { revoke_contract::<5, 3, true, false>(); }
//# id=K.cache.revoke.comp_removal.L0 props=C06,C01,C07 strength=bounded shape="list of length L=0 under the key, all ids symbolic; neighbour key and the 6 other lists hold one entry of the same id" tier=thorough fns=ReactCache::revoke_component_reactor
#[kani::proof] #[kani::unwind(6)] fn k_cache_revoke_comp_removal_l0() { revoke_contract::<6, 0, true, false>(); }
//# id=K.cache.revoke.comp_removal.L1 props=C06,C01,C07 strength=bounded shape="list of length L=1 under the key, all ids symbolic; neighbour key and the 6 other lists hold one entry of the same id" tier=quick fns=ReactCache::revoke_component_reactor
#[kani::proof] #[kani::unwind(6)] fn k_cache_revoke_comp_removal_l1() { revoke_contract::<6, 1, true, false>(); }
//# id=K.cache.revoke.comp_removal.L2 props=C06,C01,C07 strength=bounded shape="list of length L=2 under the key, all ids symbolic; neighbour key and the 6 other lists hold one entry of the same id" tier=quick fns=ReactCache::revoke_component_reactor
#[kani::proof] #[kani::unwind(6)] fn k_cache_revoke_comp_removal_l2() { revoke_contract::<6, 2, true, false>(); }
//# id=K.cache.revoke.comp_removal.L3 props=C06,C01,C07 strength=bounded shape="list of length L=3 under the key, all ids symbolic; neighbour key and the 6 other lists hold one entry of the same id" tier=thorough fns=ReactCache::revoke_component_reactor
#[kani::proof] #[kani::unwind(6)] fn k_cache_revoke_comp_removal_l3() { revoke_contract::<6, 3, true, false>(); }

//# id=K.cache.revoke.broadcast.L4 props=C06,C01 strength=bounded shape="list of length L=4 under the key, all ids symbolic" tier=thorough fns=ReactCache::revoke_broadcast_reactor
#[kani::proof] #[kani::unwind(7)] fn k_cache_revoke_broadcast_l4() { revoke_contract::<2, 4, false, false>(); }
//# id=K.cache.revoke.comp_mutation.L4 props=C06,C01,C07 strength=bounded shape="list of length L=4 under the key, all ids symbolic" tier=thorough fns=ReactCache::revoke_component_reactor
#[kani::proof] #[kani::unwind(7)] fn k_cache_revoke_comp_mutation_l4() { revoke_contract::<5, 4, true, false>(); }
//# id=K.cache.revoke.despawn.L4 props=C06,C01 strength=bounded shape="list of length L=4 under the key, all ids symbolic" tier=thorough fns=ReactCache::revoke_despawn_reactor
#[kani::proof] #[kani::unwind(7)] fn k_cache_revoke_despawn_l4() { revoke_contract::<3, 4, true, false>(); }

//# id=K.cache.revoke.any_entity_event.L1sib props=C06,C01 strength=bounded shape="list of length 1 under the key (id symbolic) + a list of a SIBLING table keyed by the same type id holding the same id" tier=quick fns=ReactCache::revoke_any_entity_event_reactor
#[kani::proof] #[kani::unwind(6)] fn k_cache_revoke_any_entity_event_sib_one() { revoke_contract::<0, 1, false, true>(); }
//# id=K.cache.revoke.resource.L1sib props=C06,C01 strength=bounded shape="list of length 1 under the key (id symbolic) + a list of a SIBLING table keyed by the same type id holding the same id" tier=quick fns=ReactCache::revoke_resource_mutation_reactor
#[kani::proof] #[kani::unwind(6)] fn k_cache_revoke_resource_sib_one() { revoke_contract::<1, 1, false, true>(); }
//# id=K.cache.revoke.broadcast.L1sib props=C06,C01 strength=bounded shape="list of length 1 under the key (id symbolic) + a list of a SIBLING table keyed by the same type id holding the same id" tier=quick fns=ReactCache::revoke_broadcast_reactor
#[kani::proof] #[kani::unwind(6)] fn k_cache_revoke_broadcast_sib_one() { revoke_contract::<2, 1, false, true>(); }

// ===============================================================================================================
// K.dispatch.*: what a trigger queues (C01, C05, C14).  The schedule_* systems are called directly as functions with the
// assumed Commands / Query / Res of the stub; the queued commands are read back from the command queue (typed).
// Contract: queued ReactionCommands = one per entity-scoped registration of (target entity, this reaction type) plus one per
// type-wide registration of this type (compared as a MULTISET: no order among reactors is promised); each names the right source/target,
// reaction type and reactor; for events: ONE payload entity is spawned first whose reader counter equals the number of
// queued readers, and nothing at all is queued or spawned when there is no listener.
// ===============================================================================================================
use bevy::ecs::world::CommandQueue;
use crate::react::react_component::verif_contracts::Val;

/// multiset equality of the first n (<= 4) entries
fn same_multiset(a: &[SystemCommand; 4], b: &[SystemCommand; 4], n: usize) -> bool {
    let mut i = 0;
    while i < n {
        let (mut ca, mut cb) = (0, 0);
        let mut j = 0;
        while j < n { if a[j] == a[i] { ca += 1; } if b[j] == a[i] { cb += 1; } j += 1; }
        if ca != cb { return false; }
        i += 1;
    }
    true
}
fn er_with(entries: &[(EntityReactionType, SystemCommand)]) -> EntityReactors {
    let mut er = EntityReactors::default();
    let mut i = 0;
    while i < entries.len() { er.insert(entries[i].0, h(entries[i].1)); i += 1; }
    er
}
fn list_of(idsv: &[SystemCommand]) -> Vec<ReactorHandle> { let mut v = Vec::with_capacity(idsv.len()); let mut i = 0; while i < idsv.len() { v.push(h(idsv[i])); i += 1; } v }

/// entity event for type u32 at `target`: S scoped listeners of the event type (+ one scoped entry of ANOTHER event type and one
/// insertion entry that must not fire), W type-wide listeners (+ listeners of another type under another key).
fn entity_event_contract<const S: usize, const W: usize, const HAS_ER: bool, const OTHER: bool>() {
    let mut world = World::new();
    let mut queue = CommandQueue::default();
    let mut cache = ReactCache::default();
    let target = world.spawn_empty().id();   // (the entity-scoped list is handed to the system through Query::verif_single, not stored in the world)
    let ev = EntityReactionType::Event(TypeId::of::<u32>());
    let other_ev = EntityReactionType::Event(TypeId::of::<u16>());
    let mut scoped = [SystemCommand(Entity::PLACEHOLDER); S];
    let mut wide = [SystemCommand(Entity::PLACEHOLDER); W];
    let mut i = 0; while i < S { scoped[i] = any_sys(); i += 1; }
    let mut i = 0; while i < W { wide[i] = any_sys(); i += 1; }
    let mut er = EntityReactors::default();
    if HAS_ER {
        if OTHER { er.insert(other_ev, h(fixed_sys(1))); }
        let mut i = 0; while i < S { er.insert(ev, h(scoped[i])); i += 1; }
    }
    if W > 0 { cache.any_entity_event_reactors.insert(TypeId::of::<u32>(), list_of(&wide)); }
    let payload: u32 = kani::any();
    {
        let commands = Commands::verif_new(&mut queue, &world);
        let q = Query::verif_single(target, if HAS_ER { Some(&mut er) } else { None });
        ReactCache::schedule_entity_event_reaction::<u32>(In((target, payload)), commands, Res::verif_new(&cache), q);
    }
    let n = S + W;
    if n == 0 { assert!(queue.verif_pending() == 0, "schedule_entity_event_reaction: no listener => nothing is queued and no payload entity is spawned"); }
    else {
        assert!(queue.verif_pending() == n + 1, "schedule_entity_event_reaction: one payload spawn + exactly one command per matching registration");
        let sp = queue.verif_peek::<bevy::SpawnCommand<(DataEntityCounter, EntityEventData<u32>)>>(0);
        assert!(sp.is_some(), "schedule_entity_event_reaction: the payload entity (reader counter + event data) is spawned first");
        let sp = sp.unwrap();
        assert!(crate::react::commands::verif_contracts::counter_value(&sp.bundle.0) == n, "schedule_entity_event_reaction: the reader counter equals the number of queued readers");
        let d = sp.entity;
        let mut got = [SystemCommand(Entity::PLACEHOLDER); 4];
        let mut k = 0;
        while k < n {
            let c = queue.verif_peek::<ReactionCommand>(1 + k);
            assert!(c.is_some(), "schedule_entity_event_reaction: one EntityEvent command per matching registration");
            match c.unwrap() {
                ReactionCommand::EntityEvent{ target: t, data_entity, reactor } => {
                    assert!(*t == target && *data_entity == d, "schedule_entity_event_reaction: commands name the event's target and its payload entity");
                    got[k] = *reactor;
                }
                _ => assert!(false, "schedule_entity_event_reaction: queues EntityEvent commands"),
            }
            k += 1;
        }
        let mut want = [SystemCommand(Entity::PLACEHOLDER); 4];
        let mut k = 0; while k < n { want[k] = if k < S { scoped[k] } else { wide[k - S] }; k += 1; }
        assert!(same_multiset(&got, &want, n), "schedule_entity_event_reaction: exactly the registered reactors are scheduled (entity-scoped for this target and type-wide), each once per registration");
    }
    core::mem::forget(er); core::mem::forget(queue); core::mem::forget(cache); core::mem::forget(world);
}
//# id=K.dispatch.entity_event.s0w0 props=C01,C05 strength=complete shape="target without EntityReactors, no type-wide listener" tier=quick fns=ReactCache::schedule_entity_event_reaction
#[kani::proof] #[kani::unwind(8)] fn k_dispatch_entity_event_s0w0_noer() { entity_event_contract::<0, 0, false, false>(); }
//# id=K.dispatch.entity_event.s0w0_er props=C01,C05 strength=complete shape="target with EntityReactors holding only another event type, no type-wide listener" tier=quick fns=ReactCache::schedule_entity_event_reaction,EntityReactors::count,EntityReactors::iter_rtype
#[kani::proof] #[kani::unwind(8)] fn k_dispatch_entity_event_s0w0_er() { entity_event_contract::<0, 0, true, true>(); }
//# id=K.dispatch.entity_event.s1w1 props=C01,C05 strength=bounded shape="1 scoped + 1 type-wide listener (ids symbolic)" tier=quick fns=ReactCache::schedule_entity_event_reaction,EntityReactors::count,EntityReactors::iter_rtype
#[kani::proof] #[kani::unwind(8)] fn k_dispatch_entity_event_s1w1_plain() { entity_event_contract::<1, 1, true, false>(); }
//# id=K.dispatch.entity_event.s1w1_other props=C01,C05 strength=bounded shape="1 scoped + 1 type-wide listener (ids symbolic), plus a scoped entry of another event type" tier=thorough fns=ReactCache::schedule_entity_event_reaction,EntityReactors::count,EntityReactors::iter_rtype
#[kani::proof] #[kani::unwind(8)] fn k_dispatch_entity_event_s1w1_other() { entity_event_contract::<1, 1, true, true>(); }
//# id=K.dispatch.entity_event.s0w2 props=C01,C05 strength=bounded shape="target without EntityReactors, 2 type-wide listeners" tier=quick fns=ReactCache::schedule_entity_event_reaction
#[kani::proof] #[kani::unwind(8)] fn k_dispatch_entity_event_s0w2() { entity_event_contract::<0, 2, false, false>(); }
//# id=K.dispatch.entity_event.s2w2 props=C01,C05 strength=bounded shape="2 scoped + 2 type-wide listeners (ids symbolic)" tier=off why="passes in ~1000 s when run alone, runs out of memory next to the other thorough harnesses" fns=ReactCache::schedule_entity_event_reaction,EntityReactors::count,EntityReactors::iter_rtype
#[kani::proof] #[kani::unwind(10)] fn k_dispatch_entity_event_s2w2() { entity_event_contract::<2, 2, true, false>(); }
//# id=K.dispatch.entity_event.s2w0 props=C01,C05 strength=bounded shape="2 scoped listeners (+ an entry of another event type), no type-wide listener" tier=thorough fns=ReactCache::schedule_entity_event_reaction,EntityReactors::count,EntityReactors::iter_rtype
#[kani::proof] #[kani::unwind(8)] fn k_dispatch_entity_event_s2w0() { entity_event_contract::<2, 0, true, true>(); }

/// insertion / mutation of component Val on `entity`: S scoped listeners of (kind, Val) (+ one scoped entry of the OTHER kind),
/// W type-wide listeners of that kind (+ one in each of the two other lists of the same component).
fn entity_reaction_contract<const MUTATION: bool, const S: usize, const W: usize, const HAS_ER: bool, const HAS_COMP: bool, const OTHER: bool>() {
    let mut world = World::new();
    let mut queue = CommandQueue::default();
    let mut cache = ReactCache::default();
    let entity = world.spawn_empty().id();
    let t = TypeId::of::<Val>();
    let rt = if MUTATION { EntityReactionType::Mutation(t) } else { EntityReactionType::Insertion(t) };
    let other_rt = if MUTATION { EntityReactionType::Insertion(t) } else { EntityReactionType::Mutation(t) };
    let mut scoped = [SystemCommand(Entity::PLACEHOLDER); S];
    let mut wide = [SystemCommand(Entity::PLACEHOLDER); W];
    let mut i = 0; while i < S { scoped[i] = any_sys(); i += 1; }
    let mut i = 0; while i < W { wide[i] = any_sys(); i += 1; }
    let mut er = EntityReactors::default();
    if HAS_ER {
        if OTHER { er.insert(other_rt, h(fixed_sys(1))); }
        let mut i = 0; while i < S { er.insert(rt, h(scoped[i])); i += 1; }
    }
    let mut cr = ComponentReactors{ insertion_callbacks: Vec::new(), mutation_callbacks: Vec::new(), removal_callbacks: one(fixed_sys(2)) };
    if MUTATION { cr.mutation_callbacks = list_of(&wide); cr.insertion_callbacks = one(fixed_sys(3)); } else { cr.insertion_callbacks = list_of(&wide); cr.mutation_callbacks = one(fixed_sys(3)); }
    cache.component_reactors.insert(t, cr);
    {
        let commands = Commands::verif_new(&mut queue, &world);
        let q = Query::verif_single(entity, if HAS_ER { Some(&mut er) } else { None });
        if MUTATION { ReactCache::schedule_mutation_reaction::<Val>(In(entity), ResMut::verif_new(&mut cache), commands, q); }
        else { ReactCache::schedule_insertion_reaction::<Val>(In(entity), ResMut::verif_new(&mut cache), commands, q, Query::verif_single_filter(entity, HAS_COMP)); }
    }
    // C14: an insertion is reacted to iff the component was actually inserted (the entity may have been despawned before the
    // insert command was applied: then it does not carry React<C> and NOTHING may be queued)
    let n = if HAS_COMP { S + W } else { 0 };
    if !HAS_COMP { assert!(queue.verif_pending() == 0, "schedule_insertion_reaction: nothing is queued for an entity that does not carry the component (not inserted / despawned before apply)"); }
    assert!(queue.verif_pending() == n, "schedule_insertion/mutation_reaction: exactly one command per matching registration (entity-scoped of this kind + type-wide of this kind), nothing else");
    let mut got = [SystemCommand(Entity::PLACEHOLDER); 4];
    let mut k = 0;
    while k < n {
        let c = queue.verif_peek::<ReactionCommand>(k);
        assert!(c.is_some(), "schedule_insertion/mutation_reaction: queues EntityReaction commands");
        match c.unwrap() {
            ReactionCommand::EntityReaction{ reaction_source, reaction_type, reactor } => {
                assert!(*reaction_source == entity && *reaction_type == rt, "schedule_insertion/mutation_reaction: commands name the changed entity, this reaction kind and component type");
                got[k] = *reactor;
            }
            _ => assert!(false, "schedule_insertion/mutation_reaction: queues EntityReaction commands"),
        }
        k += 1;
    }
    let mut want = [SystemCommand(Entity::PLACEHOLDER); 4];
    let mut k = 0; while k < n { want[k] = if k < S { scoped[k] } else { wide[k - S] }; k += 1; }
    assert!(same_multiset(&got, &want, n), "schedule_insertion/mutation_reaction: exactly the registered reactors are scheduled (entity-scoped for this entity and type-wide), each once per registration");
    assert!(cache.reaction_commands_buffer.len() == 0, "schedule_insertion/mutation_reaction: the scratch buffer is left empty");
    core::mem::forget(er); core::mem::forget(queue); core::mem::forget(cache); core::mem::forget(world);
}
//# id=K.dispatch.mutation.s0w1_er props=C01,C14 strength=bounded shape="entity with EntityReactors holding only another kind, 1 type-wide mutation listener" tier=quick fns=ReactCache::schedule_mutation_reaction,schedule_entity_reaction_impl
#[kani::proof] #[kani::unwind(8)] fn k_dispatch_mutation_s0w1_er() { entity_reaction_contract::<true, 0, 1, true, true, true>(); }
//# id=K.dispatch.mutation.s1w1 props=C01,C14 strength=bounded shape="1 scoped + 1 type-wide mutation listener" tier=quick fns=ReactCache::schedule_mutation_reaction,schedule_entity_reaction_impl
#[kani::proof] #[kani::unwind(8)] fn k_dispatch_mutation_s1w1_plain() { entity_reaction_contract::<true, 1, 1, true, true, false>(); }
//# id=K.dispatch.mutation.s1w1_other props=C01,C14 strength=bounded shape="1 scoped + 1 type-wide mutation listener, plus a scoped entry of the other kind" tier=thorough fns=ReactCache::schedule_mutation_reaction,schedule_entity_reaction_impl
#[kani::proof] #[kani::unwind(8)] fn k_dispatch_mutation_s1w1_other() { entity_reaction_contract::<true, 1, 1, true, true, true>(); }
//# id=K.dispatch.mutation.s2w2 props=C01,C14 strength=bounded shape="2 scoped + 2 type-wide mutation listeners" tier=off why="passes in ~1000 s when run alone, runs out of memory next to the other thorough harnesses" fns=ReactCache::schedule_mutation_reaction,schedule_entity_reaction_impl
#[kani::proof] #[kani::unwind(10)] fn k_dispatch_mutation_s2w2() { entity_reaction_contract::<true, 2, 2, true, true, false>(); }
//# id=K.dispatch.mutation.s0w0 props=C01,C14 strength=complete shape="entity without EntityReactors, no type-wide mutation listener (other lists non-empty)" tier=quick fns=ReactCache::schedule_mutation_reaction
#[kani::proof] #[kani::unwind(8)] fn k_dispatch_mutation_s0w0() { entity_reaction_contract::<true, 0, 0, false, true, false>(); }
//# id=K.dispatch.insertion.s0w1_er props=C01,C14 strength=bounded shape="entity with EntityReactors holding only another kind, 1 type-wide insertion listener" tier=quick fns=ReactCache::schedule_insertion_reaction,schedule_entity_reaction_impl
#[kani::proof] #[kani::unwind(8)] fn k_dispatch_insertion_s0w1_er() { entity_reaction_contract::<false, 0, 1, true, true, true>(); }
//# id=K.dispatch.insertion.s1w1 props=C01,C14 strength=bounded shape="1 scoped + 1 type-wide insertion listener" tier=quick fns=ReactCache::schedule_insertion_reaction,schedule_entity_reaction_impl
#[kani::proof] #[kani::unwind(8)] fn k_dispatch_insertion_s1w1() { entity_reaction_contract::<false, 1, 1, true, true, false>(); }
//# id=K.dispatch.insertion.nocomp props=C14,C18 strength=bounded shape="entity does NOT carry React<C> (despawned before the insert was applied); 1 scoped + 1 type-wide insertion listener registered" tier=quick fns=ReactCache::schedule_insertion_reaction
#[kani::proof] #[kani::unwind(8)] fn k_dispatch_insertion_nocomp() { entity_reaction_contract::<false, 1, 1, true, false, false>(); }

// ---------------------------------------------------------------------------------------------------------------
// K.dispatch.despawn: schedule_despawn_reactions (C08, C07): for every entity reported on the despawn channel the map
// entry is CONSUMED and exactly one Despawn command per stored handle is queued (carrying that handle, in order, with the
// despawned entity as source); entities without entry are ignored; a second poll queues nothing (at most once).
// Shape: 2 handles stored for e (ids symbolic), one handle for a bystander entity that is not reported; e reported ONCE / TWICE.
// ---------------------------------------------------------------------------------------------------------------
fn despawn_dispatch_contract<const REPORTS: usize>() {
    let mut world = World::new();
    let mut cache = ReactCache::default();
    let e = Entity::verif_new(7, 1);
    let stranger = Entity::verif_new(9, 1);     // reported, but nobody listens
    let by = Entity::verif_new(8, 1);           // listened to, but not reported
    let (a, b) = (any_sys(), any_sys());
    let mut l = Vec::with_capacity(2); l.push(h(a)); l.push(h(b));
    cache.despawn_reactors.insert(e, l);
    cache.despawn_reactors.insert(by, one(fixed_sys(5)));
    let tx = cache.despawn_sender();
    let _ = tx.send(stranger);
    let mut i = 0; while i < REPORTS { let _ = tx.send(e); i += 1; }
    cache.schedule_despawn_reactions(&mut world);
    let q = world.verif_world_queue();
    assert!(q.verif_pending() == 2, "schedule_despawn_reactions: exactly one Despawn command per handle stored for a reported entity, at most once per entity");
    let mut k = 0;
    while k < 2 {
        match q.verif_peek::<ReactionCommand>(k) {
            Some(ReactionCommand::Despawn{ reaction_source, reactor, handle }) =>
                assert!(*reaction_source == e && *reactor == (if k == 0 { a } else { b }) && handle.sys_command() == *reactor, "schedule_despawn_reactions: commands carry the despawned entity, the registered reactor and its handle, in registration order"),
            _ => assert!(false, "schedule_despawn_reactions: queues Despawn commands"),
        }
        k += 1;
    }
    assert!(cache.despawn_reactors.get(&e).is_none(), "schedule_despawn_reactions: the entry of a despawned entity is consumed (fires at most once)");
    assert!(len_of(cache.despawn_reactors.get(&by)) == 1, "schedule_despawn_reactions: entities that were not reported keep their reactors");
    cache.schedule_despawn_reactions(&mut world);
    assert!(world.verif_world_queue().verif_pending() == 2, "schedule_despawn_reactions: a second poll queues nothing");
    core::mem::forget(tx); core::mem::forget(cache); core::mem::forget(world);
}
//# id=K.dispatch.despawn.once props=C08,C07 strength=bounded shape="entity with 2 despawn reactors reported once; a reported entity without reactors; an unreported entity with a reactor" tier=off fns=ReactCache::schedule_despawn_reactions
#[kani::proof] #[kani::unwind(8)] fn k_dispatch_despawn_once() { despawn_dispatch_contract::<1>(); }
//# id=K.dispatch.despawn.twice props=C08,C07 strength=bounded shape="same, the entity is reported twice before the poll" tier=off fns=ReactCache::schedule_despawn_reactions
#[kani::proof] #[kani::unwind(8)] fn k_dispatch_despawn_twice() { despawn_dispatch_contract::<2>(); }
