//! Kani contracts for src/react/react_component.rs (appended as child module `verif_contracts`).
use super::*;
use bevy::ecs::world::CommandQueue;

#[derive(PartialEq, Clone, Copy)] pub(crate) struct Val(pub(crate) u32);
impl ReactComponent for Val {}

// ---------------------------------------------------------------------------------------------------------------
// K.accessors.react: React<C> accessors (C14). Reacting accessors queue EXACTLY ONE trigger command per call; reads and the
// *_noreact accessors queue none; set_if_neq(new): new == old => None, value unchanged, nothing queued; new != old =>
// Some(old), value == new, exactly one trigger.  Shape: loop-free; old/new over the full u32 domain.
// (That the queued trigger names THIS entity and reaches exactly the matching reactors: K.dispatch.* in react_cache.rs.)
// ---------------------------------------------------------------------------------------------------------------
//# id=K.accessors.react props=C14 strength=complete shape="loop-free; old/new values symbolic over u32" tier=quick fns=React::get,React::get_mut,React::get_noreact,React::set_if_neq,React::take
#[kani::proof] #[kani::unwind(6)]
fn k_accessors_reactcomp() {
    let world = World::new();
    let mut queue = CommandQueue::default();
    let old: u32 = kani::any();
    let new: u32 = kani::any();
    let e = Entity::verif_new(kani::any(), 1);
    let mut r = React{ entity: e, component: Val(old) };
    {
        let mut c = Commands::verif_new(&mut queue, &world);
        assert!(r.get().0 == old, "React::get: reads the value");
        assert!(r.get_noreact().0 == old, "React::get_noreact: reads the value");
    }
    assert!(queue.verif_pending() == 0, "React::get / get_noreact: never trigger");
    {
        let mut c = Commands::verif_new(&mut queue, &world);
        let m = r.get_mut(&mut c);
        assert!(m.0 == old, "React::get_mut: hands out the stored value");
    }
    assert!(queue.verif_pending() == 1, "React::get_mut: exactly one trigger per call");
    let ret;
    {
        let mut c = Commands::verif_new(&mut queue, &world);
        ret = r.set_if_neq(&mut c, Val(new));
    }
    if new == old {
        assert!(ret.is_none() && r.component.0 == old, "React::set_if_neq: equal value => None, value unchanged");
        assert!(queue.verif_pending() == 1, "React::set_if_neq: equal value => no trigger");
    } else {
        assert!(ret == Some(Val(old)) && r.component.0 == new, "React::set_if_neq: different value => returns the old value and stores the new one");
        assert!(queue.verif_pending() == 2, "React::set_if_neq: different value => exactly one trigger");
    }
    assert!(r.entity == e, "React: accessors never change the owning entity");
    assert!(r.take().0 == (if new == old { old } else { new }), "React::take: unwraps the stored value");
    core::mem::forget(queue);
    core::mem::forget(world);
}

// ---------------------------------------------------------------------------------------------------------------
// K.accessors.reactive_mut: ReactiveMut<T> (query-level accessors) on an entity with / without React<T> (C14, C18).
// ---------------------------------------------------------------------------------------------------------------
fn reactive_mut_contract<const HAS: bool>() {
    let world = World::new();
    let mut queue = CommandQueue::default();
    let old: u32 = kani::any();
    let new: u32 = kani::any();
    let has: bool = HAS;
    let e = Entity::verif_new(2, 1);
    let mut comp = React{ entity: e, component: Val(old) };
    let cp: *mut React<Val> = &mut comp;
    let mut rm = ReactiveMut::<Val>{ components: Query::verif_single(e, if has { Some(unsafe { &mut *cp }) } else { None }) };
    let ro = Reactive::<Val>{ components: Query::verif_single(e, if has { Some(unsafe { &mut *cp }) } else { None }) };
    let mut c = Commands::verif_new(&mut queue, &world);
    assert!(ro.get(e).ok().map(|v| v.0) == (if has { Some(old) } else { None }), "Reactive::get: reads the value iff the entity has the component");
    assert!(rm.get(e).ok().map(|v| v.0) == (if has { Some(old) } else { None }), "ReactiveMut::get: reads the value iff the entity has the component");
    assert!(rm.get_noreact(e).ok().map(|v| v.0) == (if has { Some(old) } else { None }), "ReactiveMut::get_noreact: reads the value iff the entity has the component");
    assert!(unsafe { (*c.verif_queue()).verif_pending() } == 0, "Reactive::get / ReactiveMut::get / get_noreact: never trigger");
    let got = rm.get_mut(&mut c, e).ok().map(|v| v.0);
    assert!(got == (if has { Some(old) } else { None }), "ReactiveMut::get_mut: hands out the stored value iff the entity has the component");
    let n1 = unsafe { (*c.verif_queue()).verif_pending() };
    assert!(n1 == (if has { 1 } else { 0 }), "ReactiveMut::get_mut: exactly one trigger per successful call, none for a missing component");
    let ret = rm.set_if_neq(&mut c, e, Val(new));
    let n2 = unsafe { (*c.verif_queue()).verif_pending() };
    if !has { assert!(ret.is_none() && n2 == 0, "ReactiveMut::set_if_neq: missing component => None, no trigger"); }
    else if new == old { assert!(ret.is_none() && n2 == 1, "ReactiveMut::set_if_neq: equal value => None, no trigger"); }
    else { assert!(ret == Some(Val(old)) && n2 == 2, "ReactiveMut::set_if_neq: different value => old value returned, exactly one trigger"); }
    if has { assert!(unsafe { (*cp).component.0 } == (if new == old { old } else { new }), "ReactiveMut::set_if_neq: stores the new value iff it differs"); }
    core::mem::forget(queue);
    core::mem::forget(world);
}
//# id=K.accessors.reactive_mut.present props=C14 strength=complete shape="entity carries React<T>; old/new symbolic over u32" tier=quick fns=ReactiveMut::get,ReactiveMut::get_mut,ReactiveMut::get_noreact,ReactiveMut::set_if_neq,Reactive::get
#[kani::proof] #[kani::unwind(6)] fn k_accessors_reactive_mut_present() { reactive_mut_contract::<true>(); }
//# id=K.accessors.reactive_mut.absent props=C14,C18 strength=complete shape="entity does not carry React<T> (or is gone)" tier=quick fns=ReactiveMut::get,ReactiveMut::get_mut,ReactiveMut::get_noreact,ReactiveMut::set_if_neq,Reactive::get
#[kani::proof] #[kani::unwind(6)] fn k_accessors_reactive_mut_absent() { reactive_mut_contract::<false>(); }
