//! Kani contracts for src/react/react_resource.rs (appended as child module `verif_contracts`).
use super::*;
use bevy::ecs::world::CommandQueue;

#[derive(PartialEq, Clone, Copy)] pub(crate) struct RVal(pub(crate) u32);
impl ReactResource for RVal {}

// ---------------------------------------------------------------------------------------------------------------
// K.accessors.resource: ReactResInner / ReactResMut accessors (C14): get_mut queues exactly one trigger; get_noreact and
// reads none; set_if_neq(new): new == old => None, unchanged, nothing queued; else Some(old), stored, exactly one.
// Shape: loop-free; old/new over the full u32 domain.
// ---------------------------------------------------------------------------------------------------------------
//# id=K.accessors.resource props=C14 strength=complete shape="loop-free; old/new values symbolic over u32" tier=quick fns=ReactResInner::get_mut,ReactResInner::get_noreact,ReactResInner::set_if_neq,ReactResMut::get_mut,ReactResMut::set_if_neq,ReactResMut::get_noreact
#[kani::proof] #[kani::unwind(6)]
fn k_accessors_resource() {
    let world = World::new();
    let mut queue = CommandQueue::default();
    let old: u32 = kani::any();
    let new: u32 = kani::any();
    let mut inner = ReactResInner::new(RVal(old));
    let mut c = Commands::verif_new(&mut queue, &world);
    {
        let mut r = ReactResMut{ inner: ResMut::verif_new(&mut inner) };
        assert!(r.get_noreact().0 == old, "ReactResMut::get_noreact: reads the value");
        assert!((*r).0 == old, "ReactResMut deref: reads the value");
        assert!(unsafe { (*c.verif_queue()).verif_pending() } == 0, "ReactResMut::get_noreact / deref: never trigger");
        assert!(r.get_mut(&mut c).0 == old, "ReactResMut::get_mut: hands out the stored value");
        assert!(unsafe { (*c.verif_queue()).verif_pending() } == 1, "ReactResMut::get_mut: exactly one trigger per call");
        let ret = r.set_if_neq(&mut c, RVal(new));
        let n = unsafe { (*c.verif_queue()).verif_pending() };
        if new == old { assert!(ret.is_none() && n == 1, "ReactResMut::set_if_neq: equal value => None and no trigger"); }
        else { assert!(ret == Some(RVal(old)) && n == 2, "ReactResMut::set_if_neq: different value => old value returned, exactly one trigger"); }
    }
    assert!(inner.resource.0 == (if new == old { old } else { new }), "ReactResMut::set_if_neq: stores the new value iff it differs");
    core::mem::forget(queue);
    core::mem::forget(world);
}
