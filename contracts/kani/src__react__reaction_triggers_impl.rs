//! Kani contracts for src/react/reaction_triggers_impl.rs (appended as child module `verif_contracts`).
use super::*;

// ---------------------------------------------------------------------------------------------------------------
// K.despawn.register: the `register_despawn_reactor` system (C08, C07, C18): registering a despawn reactor on a live entity
// stores the handle under that entity and makes sure the entity carries ONE DespawnTracker - an existing tracker is NEVER
// replaced (replacing it would drop the old one, which reports the still-living entity as despawned); a dead entity gets
// nothing.  Shape: HAS_TRACKER (the entity already carries a tracker - e.g. an earlier reactor that was revoked since: the
// cache entry is gone, the tracker is not) x ALIVE; handle id symbolic.
// ---------------------------------------------------------------------------------------------------------------
fn register_despawn_contract<const ALIVE: bool, const HAS_TRACKER: bool>() {
    let mut world = World::new();
    let cache = ReactCache::default();
    let tx = cache.despawn_sender();
    world.insert_resource(cache);
    let e = world.spawn_empty().id();
    if HAS_TRACKER { world.entity_mut(e).insert(DespawnTracker{ parent: e, notifier: tx.clone() }); }
    if !ALIVE { world.despawn(e); let _ = world.resource_scope(|w: &mut World, mut c: Mut<ReactCache>| { c.schedule_despawn_reactions(w); }); }
    let id = SystemCommand(Entity::verif_new(kani::any(), 1));
    register_despawn_reactor(In((e, ReactorHandle::Persistent(id))), &mut world);
    let (n, reported) = world.resource_scope(|_w: &mut World, c: Mut<ReactCache>| {
        (c.verif_despawn_len(e), c.verif_despawn_pending())
    });
    if ALIVE {
        assert!(n == 1, "register_despawn_reactor: the handle is stored under the watched entity");
        assert!(world.get::<DespawnTracker>(e).is_some(), "register_despawn_reactor: a watched entity carries a despawn tracker");
        assert!(!reported, "register_despawn_reactor: an existing tracker is never replaced (a living entity is never reported as despawned)");
    } else {
        assert!(n == 0, "register_despawn_reactor: nothing is registered for an entity that is already gone");
    }
    core::mem::forget(tx); core::mem::forget(world);
}
//# id=K.despawn.register.fresh props=C07,C18 strength=complete shape="live entity without tracker; handle id symbolic" tier=off fns=register_despawn_reactor,ReactCache::register_despawn_reactor
#[kani::proof] #[kani::unwind(6)] fn k_despawn_register_fresh() { register_despawn_contract::<true, false>(); }
//# id=K.despawn.register.has_tracker props=C07,C18 strength=complete shape="live entity that already carries a tracker but has no cache entry (earlier reactor revoked); handle id symbolic" tier=off fns=register_despawn_reactor,ReactCache::register_despawn_reactor
#[kani::proof] #[kani::unwind(6)] fn k_despawn_register_has_tracker() { register_despawn_contract::<true, true>(); }
