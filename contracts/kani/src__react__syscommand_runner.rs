//! Kani contracts for src/react/syscommand_runner.rs (appended as child module `verif_contracts`).
use super::*;
include!("common.inc");

#[derive(Resource, Default)] struct Trace { marks: [u8; 8], n: usize, who: u32 }
fn setup_fn(world: &mut World, sys: SystemCommand) { let mut t = world.resource_mut::<Trace>(); let n = t.n; t.marks[n] = 1; t.n += 1; t.who = sys.0.index(); }
fn cleanup_fn(world: &mut World) { let mut t = world.resource_mut::<Trace>(); let n = t.n; t.marks[n] = 2; t.n += 1; }

fn base_world() -> World {
    let mut w = World::new();
    w.init_resource::<Trace>();
    w.init_resource::<ReactCache>();
    w.init_resource::<CobwebCommandQueue<BufferedSyscommand>>();
    w.init_resource::<SyscommandCounter>();
    w.insert_resource(crate::ecs::verif_contracts::new_despawner());
    w
}

// ---------------------------------------------------------------------------------------------------------------
// K.runner.cleanup_on_abort: a run that cannot happen (target gone) still consumes its parked metadata and releases its
// payload: setup(reactor) then cleanup, each exactly once, in that order, whether or not the target entity exists
// (C03, C05, C11, C18).  Shape: loop-free; target alive / dead symbolic.
// ---------------------------------------------------------------------------------------------------------------
fn cleanup_on_abort_contract<const DEAD: bool>() {
    let mut world = base_world();
    let target = world.spawn_empty().id();
    let dead: bool = DEAD;
    if dead { world.despawn(target); }
    let setup = SystemCommandSetup::new(SystemCommand(target), setup_fn);
    let cleanup = SystemCommandCleanup::new(cleanup_fn);
    cleanup_on_abort(&mut world, setup, cleanup);
    let t = world.resource::<Trace>();
    assert!(t.n == 2 && t.marks[0] == 1 && t.marks[1] == 2, "cleanup_on_abort: setup then cleanup, each exactly once, even when the target is gone");
    assert!(t.who == target.index(), "cleanup_on_abort: setup is run for the aborted command's own system");
    core::mem::forget(world);
}
//# id=K.runner.cleanup_on_abort.dead props=C03,C05,C18 strength=complete shape="target entity dead" tier=off fns=cleanup_on_abort,SystemCommandSetup::run,SystemCommandCleanup::run
#[kani::proof] #[kani::unwind(6)] fn k_runner_cleanup_on_abort_dead() { cleanup_on_abort_contract::<true>(); }
//# id=K.runner.cleanup_on_abort.alive props=C03,C05,C18 strength=complete shape="target entity alive" tier=off fns=cleanup_on_abort,SystemCommandSetup::run,SystemCommandCleanup::run
#[kani::proof] #[kani::unwind(6)] fn k_runner_cleanup_on_abort_alive() { cleanup_on_abort_contract::<false>(); }
