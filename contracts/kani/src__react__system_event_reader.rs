//! Kani contracts for src/react/system_event_reader.rs (appended as child module `verif_contracts`).
use super::*;
include!("common.inc");

pub(crate) fn peek(t: &SystemEventAccessTracker) -> (bool, Entity, usize) { (t.currently_reacting, t.data_entity, t.prepared.len()) }

type Elem = (SystemCommand, Entity);
fn same(a: &Elem, b: &Elem) -> bool { a == b }
#[allow(dead_code)] fn dbg_list(l: &[Elem]) -> Vec<(u32, u32)> { l.iter().map(|(s, d)| (s.0.index(), d.index())).collect() }

// ---------------------------------------------------------------------------------------------------------------
// K.tracker.sysevent.start: `SystemEventAccessTracker::start(r)` claims the OLDEST parked entry of system r, the other entries keep
// their ORDER; with no entry for r nothing changes (release semantics: the debug_assert!s are compiled out).
// Shape: parked list of fixed length L, every content symbolic (C03, C12).
// ---------------------------------------------------------------------------------------------------------------
fn start_contract<const L: usize>()
{
    let mut old = [(SystemCommand(Entity::PLACEHOLDER), Entity::PLACEHOLDER); L];
    let mut i = 0;
    while i < L { old[i] = (any_sys(), any_entity()); i += 1; }
    let flag0: bool = kani::any();
    let data0 = any_entity();
    let mut t = SystemEventAccessTracker{ currently_reacting: flag0, data_entity: data0, prepared: old.to_vec() };
    let r = any_sys();
    let mut first = L;
    let mut i = 0;
    while i < L { if first == L && old[i].0 == r { first = i; } i += 1; }
    vlog!("REPLAY-INPUT SystemEventAccessTracker.prepared={:?} then start({:?})", dbg_list(&old), r);

    t.start(r);

    vlog!("REPLAY-OUTPUT SystemEventAccessTracker.prepared={:?}", dbg_list(&t.prepared));
    if first == L {
        assert!(t.currently_reacting == flag0 && t.data_entity == data0, "SystemEventAccessTracker::start: no entry for this system => current data unchanged");
        assert!(t.prepared.len() == L, "SystemEventAccessTracker::start: no entry for this system => parked list unchanged");
        let mut j = 0;
        while j < L { assert!(same(&t.prepared[j], &old[j]), "SystemEventAccessTracker::start: no entry for this system => parked list unchanged"); j += 1; }
    } else {
        assert!(t.currently_reacting, "SystemEventAccessTracker::start: reacting flag set");
        assert!(t.data_entity == old[first].1, "SystemEventAccessTracker::start: claims the OLDEST entry parked for this system");
        assert!(t.prepared.len() == L - 1, "SystemEventAccessTracker::start: exactly one entry consumed");
        let mut j = 0;
        while j + 1 < L {
            let src = if j < first { j } else { j + 1 };
            assert!(same(&t.prepared[j], &old[src]), "SystemEventAccessTracker::start: entries other than the claimed one keep their order");
            j += 1;
        }
    }
}

//# id=K.tracker.sysevent.start.L0 props=C03,C12 strength=complete shape="parked list L=0" tier=quick fns=SystemEventAccessTracker::start
#[kani::proof] #[kani::unwind(2)] fn k_tracker_sysevent_start_l0() { start_contract::<0>(); }
//# id=K.tracker.sysevent.start.L1 props=C03,C12 strength=complete shape="parked list L=1, all contents" tier=quick fns=SystemEventAccessTracker::start
#[kani::proof] #[kani::unwind(3)] fn k_tracker_sysevent_start_l1() { start_contract::<1>(); }
//# id=K.tracker.sysevent.start.L2 props=C03,C12 strength=complete shape="parked list L=2, all contents" tier=quick fns=SystemEventAccessTracker::start
#[kani::proof] #[kani::unwind(4)] fn k_tracker_sysevent_start_l2() { start_contract::<2>(); }
//# id=K.tracker.sysevent.start.L3 props=C03,C12 strength=complete shape="parked list L=3, all contents" tier=quick fns=SystemEventAccessTracker::start
#[kani::proof] #[kani::unwind(5)] fn k_tracker_sysevent_start_l3() { start_contract::<3>(); }
//# id=K.tracker.sysevent.start.L4 props=C03,C12 strength=complete shape="parked list L=4, all contents" tier=thorough fns=SystemEventAccessTracker::start
#[kani::proof] #[kani::unwind(6)] fn k_tracker_sysevent_start_l4() { start_contract::<4>(); }
//# id=K.tracker.sysevent.start.L5 props=C03,C12 strength=complete shape="parked list L=5, all contents" tier=thorough fns=SystemEventAccessTracker::start
#[kani::proof] #[kani::unwind(7)] fn k_tracker_sysevent_start_l5() { start_contract::<5>(); }
//# id=K.tracker.sysevent.start.L6 props=C03,C12 strength=complete shape="parked list L=6, all contents" tier=thorough fns=SystemEventAccessTracker::start
#[kani::proof] #[kani::unwind(8)] fn k_tracker_sysevent_start_l6() { start_contract::<6>(); }
//# id=K.tracker.sysevent.start.L7 props=C03,C12 strength=complete shape="parked list L=7, all contents" tier=thorough fns=SystemEventAccessTracker::start
#[kani::proof] #[kani::unwind(9)] fn k_tracker_sysevent_start_l7() { start_contract::<7>(); }

// ---------------------------------------------------------------------------------------------------------------
// K.reader.sysevent: SystemEvent<T>::take (C03, C04): yields the causing event's own payload iff the tracker is reacting AND
// the tracker's data entity carries a payload of THIS type that has not been taken yet; a second take in the same run,
// a reader of another payload type, a run that is not reacting to a system event => Err.
// Shape: loop-free; REACTING / payload kind enumerated (const), payload value symbolic.
// ---------------------------------------------------------------------------------------------------------------
fn sysevent_reader_contract<const REACTING: bool, const KIND: u8>() {
    let d = Entity::verif_new(4, 1);
    let v: u32 = kani::any();
    let mut data32 = SystemEventData::new(v);
    let mut data16 = SystemEventData::new(7u16);
    let tracker = SystemEventAccessTracker{ currently_reacting: REACTING, data_entity: d, prepared: Vec::new() };
    // KIND 0: the data entity carries a u32 payload; 1: it carries a u16 payload; 2: it carries nothing (already released)
    let mut r32 = SystemEvent::<u32>{ tracker: Res::verif_new(&tracker), data: Query::verif_single(d, if KIND == 0 { Some(&mut data32) } else { None }) };
    let mut r16 = SystemEvent::<u16>{ tracker: Res::verif_new(&tracker), data: Query::verif_single(d, if KIND == 1 { Some(&mut data16) } else { None }) };
    let first = r32.take().ok();
    assert!(first == (if REACTING && KIND == 0 { Some(v) } else { None }), "SystemEvent::take: the causing event's own payload iff reacting to a system event of this payload type");
    assert!(r32.take().is_err(), "SystemEvent::take: a payload can be taken at most once");
    let other = r16.take().ok();
    assert!(other == (if REACTING && KIND == 1 { Some(7u16) } else { None }), "SystemEvent::take: a reader of another payload type reads nothing");
    core::mem::forget(r32); core::mem::forget(r16);
}
//# id=K.reader.sysevent.reacting_u32 props=C03,C04 strength=complete shape="reacting; data entity carries a u32 payload (value symbolic)" tier=quick fns=SystemEvent::take,SystemEventData::take
#[kani::proof] #[kani::unwind(4)] fn k_reader_sysevent_reacting_u32() { sysevent_reader_contract::<true, 0>(); }
//# id=K.reader.sysevent.reacting_u16 props=C03,C04 strength=complete shape="reacting; data entity carries a u16 payload" tier=quick fns=SystemEvent::take
#[kani::proof] #[kani::unwind(4)] fn k_reader_sysevent_reacting_u16() { sysevent_reader_contract::<true, 1>(); }
//# id=K.reader.sysevent.reacting_gone props=C03,C04,C18 strength=complete shape="reacting; data entity gone" tier=quick fns=SystemEvent::take
#[kani::proof] #[kani::unwind(4)] fn k_reader_sysevent_reacting_gone() { sysevent_reader_contract::<true, 2>(); }
//# id=K.reader.sysevent.idle props=C03,C04 strength=complete shape="NOT reacting (manual run / other kind of run); data entity still carries a u32 payload" tier=quick fns=SystemEvent::take
#[kani::proof] #[kani::unwind(4)] fn k_reader_sysevent_idle() { sysevent_reader_contract::<false, 0>(); }
