//! Kani contracts for src/react/system_event_reader.rs (appended as child module `verif_contracts`).
use super::*;
include!("common.inc");

pub(crate) fn peek(t: &SystemEventAccessTracker) -> (bool, Entity, usize) { (t.currently_reacting, t.data_entity, t.prepared.len()) }

type Elem = (SystemCommand, Entity);
fn same(a: &Elem, b: &Elem) -> bool { a == b }
#[allow(dead_code)] fn dbg_list(l: &[Elem]) -> Vec<(u32, u32)> { l.iter().map(|(s, d)| (s.0.index(), d.index())).collect() }

// ---------------------------------------------------------------------------------------------------------------
// K.tracker.sysevent.start: `SystemEventAccessTracker::start(r)` claims the OLDEST parked entry of system r, the other entries keep
// their ORDER; with no entry for r nothing changes (release semantics: the debug_assert!s are compiled out).
// Shape: parked list of fixed length L, every content symbolic (C03, C12).
// ---------------------------------------------------------------------------------------------------------------
fn start_contract<const L: usize>()
{
    let mut old = [(SystemCommand(Entity::PLACEHOLDER), Entity::PLACEHOLDER); L];
    let mut i = 0;
    while i < L { old[i] = (any_sys(), any_entity()); i += 1; }
    let flag0: bool = kani::any();
    let data0 = any_entity();
    let mut t = SystemEventAccessTracker{ currently_reacting: flag0, data_entity: data0, prepared: old.to_vec() };
    let r = any_sys();
    let mut first = L;
    let mut i = 0;
    while i < L { if first == L && old[i].0 == r { first = i; } i += 1; }
    vlog!("REPLAY-INPUT SystemEventAccessTracker.prepared={:?} then start({:?})", dbg_list(&old), r);

    t.start(r);

    vlog!("REPLAY-OUTPUT SystemEventAccessTracker.prepared={:?}", dbg_list(&t.prepared));
    if first == L {
        assert!(t.currently_reacting == flag0 && t.data_entity == data0, "SystemEventAccessTracker::start: no entry for this system => current data unchanged");
        assert!(t.prepared.len() == L, "SystemEventAccessTracker::start: no entry for this system => parked list unchanged");
        let mut j = 0;
        while j < L { assert!(same(&t.prepared[j], &old[j]), "SystemEventAccessTracker::start: no entry for this system => parked list unchanged"); j += 1; }
    } else {
        assert!(t.currently_reacting, "SystemEventAccessTracker::start: reacting flag set");
        assert!(t.data_entity == old[first].1, "SystemEventAccessTracker::start: claims the OLDEST entry parked for this system");
        assert!(t.prepared.len() == L - 1, "SystemEventAccessTracker::start: exactly one entry consumed");
        let mut j = 0;
        while j + 1 < L {
            let src = if j < first { j } else { j + 1 };
            assert!(same(&t.prepared[j], &old[src]), "SystemEventAccessTracker::start: entries other than the claimed one keep their order");
            j += 1;
        }
    }
}

//# id=K.tracker.sysevent.start.L0 props=C03,C12 strength=complete shape="parked list L=0" tier=quick fns=SystemEventAccessTracker::start
#[kani::proof] #[kani::unwind(2)] fn k_tracker_sysevent_start_l0() { start_contract::<0>(); }
//# id=K.tracker.sysevent.start.L1 props=C03,C12 strength=complete shape="parked list L=1, all contents" tier=quick fns=SystemEventAccessTracker::start
#[kani::proof] #[kani::unwind(3)] fn k_tracker_sysevent_start_l1() { start_contract::<1>(); }
//# id=K.tracker.sysevent.start.L2 props=C03,C12 strength=complete shape="parked list L=2, all contents" tier=quick fns=SystemEventAccessTracker::start
#[kani::proof] #[kani::unwind(4)] fn k_tracker_sysevent_start_l2() { start_contract::<2>(); }
//# id=K.tracker.sysevent.start.L3 props=C03,C12 strength=complete shape="parked list L=3, all contents" tier=quick fns=SystemEventAccessTracker::start
#[kani::proof] #[kani::unwind(5)] fn k_tracker_sysevent_start_l3() { start_contract::<3>(); }
//# id=K.tracker.sysevent.start.L4 props=C03,C12 strength=complete shape="parked list L=4, all contents" tier=thorough fns=SystemEventAccessTracker::start
#[kani::proof] #[kani::unwind(6)] fn k_tracker_sysevent_start_l4() { start_contract::<4>(); }
//# id=K.tracker.sysevent.start.L5 props=C03,C12 strength=complete shape="parked list L=5, all contents" tier=thorough fns=SystemEventAccessTracker::start
#[kani::proof] #[kani::unwind(7)] fn k_tracker_sysevent_start_l5() { start_contract::<5>(); }
