//! Kani contracts for src/react/utils.rs (appended as child module `verif_contracts`).
use super::*;
include!("common.inc");

fn tid(k: u8) -> TypeId { match k { 0 => TypeId::of::<u8>(), _ => TypeId::of::<u16>() } }
fn any_rtype() -> EntityReactionType {
    let k: u8 = kani::any(); let t = tid(kani::any());
    match k % 4 { 0 => EntityReactionType::Insertion(t), 1 => EntityReactionType::Mutation(t), 2 => EntityReactionType::Removal(t), _ => EntityReactionType::Event(t) }
}
type Ent = (EntityReactionType, SystemCommand);
#[allow(dead_code)] fn dbg(l: &[Ent]) -> Vec<(String, u32)> { l.iter().map(|(r, s)| (format!("{:?}", r), s.0.index())).collect() }
#[allow(dead_code)] fn dbg_er(e: &EntityReactors) -> Vec<(String, u32)> { e.reactors.iter().map(|(r, h)| (format!("{:?}", r), h.sys_command().0.index())).collect() }

// ---------------------------------------------------------------------------------------------------------------
// K.entity_reactors.*: the per-entity registration list (C01, C06, C16).
//   insert(rt, h): list' = list.push((rt, h.sys))
//   remove(rt, id): deletes exactly the entries whose reaction type AND reactor id both match; all others stay
//   iter_rtype(rt): the reactor ids of exactly the entries of type rt; count(rt) = their number
//   iter_reactors(): all reactor ids          (multiset comparisons: no order among reactors is promised by the properties)
// Shape: list of length L, all contents symbolic (4 kinds x 2 type ids x arbitrary reactor ids).
// ---------------------------------------------------------------------------------------------------------------
fn er_contract<const L: usize, const QUERIES: bool, const REMOVE: bool>()
{
    let mut before = [(EntityReactionType::Insertion(tid(0)), SystemCommand(Entity::PLACEHOLDER)); L];
    let mut er = EntityReactors::default();
    let mut i = 0;
    while i < L {
        let e = (any_rtype(), any_sys());
        before[i] = e;
        er.insert(e.0, ReactorHandle::Persistent(e.1));
        i += 1;
    }
    // insert = push (checked on the list built by L inserts)
    assert!(er.reactors.len() == L, "EntityReactors::insert: one entry per registration");
    let mut j = 0;
    while j < L { let c = er.reactors.iter().filter(|(r, h)| *r == before[j].0 && h.sys_command() == before[j].1).count(); assert!(c >= 1, "EntityReactors::insert: every registration is stored with its reaction type and reactor"); j += 1; }

    let rt = any_rtype();
    let id = any_sys();
    vlog!("REPLAY-INPUT list={:?} query rtype={:?} id={}", dbg(&before), rt, id.0.index());
    if QUERIES {
    // iter_rtype / count / iter_reactors against the list (as multisets: no order among reactors is promised); the iterators are
    // drained ONCE into arrays, the counting is done on arrays (cheap for CBMC)
    let mut expect_n = 0usize;
    let mut j = 0;
    while j < L { if before[j].0 == rt { expect_n += 1; } j += 1; }
    assert!(er.count(rt) == expect_n, "EntityReactors::count: number of registrations of this reaction type");
    let mut got = [SystemCommand(Entity::PLACEHOLDER); 5];
    let mut n_got = 0usize;
    let mut it = er.iter_rtype(rt);
    let mut k = 0;
    while k <= L { match it.next() { Some(s) => { assert!(n_got < L, "EntityReactors::iter_rtype: yields at most one item per registration"); got[n_got] = s; n_got += 1; } None => {} } k += 1; }
    drop(it);
    assert!(n_got == expect_n, "EntityReactors::iter_rtype: yields one item per registration of this reaction type");
    let mut all = [SystemCommand(Entity::PLACEHOLDER); 5];
    let mut n_all = 0usize;
    let mut it = er.iter_reactors();
    let mut k = 0;
    while k <= L { match it.next() { Some(s) => { assert!(n_all < L, "EntityReactors::iter_reactors: nothing else"); all[n_all] = s; n_all += 1; } None => {} } k += 1; }
    drop(it);
    assert!(n_all == L, "EntityReactors::iter_reactors: every registration's reactor, nothing else");
    let mut j = 0;
    while j < L {
        let x = before[j].1;
        let (mut want, mut want_all, mut g, mut ga) = (0, 0, 0, 0);
        let mut k = 0;
        while k < L { if before[k].1 == x { want_all += 1; if before[k].0 == rt { want += 1; } } k += 1; }
        let mut k = 0; while k < n_got { if got[k] == x { g += 1; } k += 1; }
        let mut k = 0; while k < n_all { if all[k] == x { ga += 1; } k += 1; }
        assert!(g == want, "EntityReactors::iter_rtype: yields exactly the reactors registered for this reaction type, each once per registration");
        assert!(ga == want_all, "EntityReactors::iter_reactors: every registration's reactor");
        j += 1;
    }
    }
    if !REMOVE { core::mem::forget(er); return; }

    er.remove(rt, id);

    vlog!("REPLAY-OUTPUT after remove: {:?}", dbg_er(&er));
    // copy the list out once
    let m = er.reactors.len();
    assert!(m <= L, "EntityReactors::remove: never adds entries");
    let mut after = [(EntityReactionType::Insertion(tid(0)), SystemCommand(Entity::PLACEHOLDER)); 5];
    let mut k = 0;
    while k < m { after[k] = (er.reactors[k].0, er.reactors[k].1.sys_command()); k += 1; }
    let mut kept = 0usize;
    let mut j = 0;
    while j < L {
        let hit = before[j].0 == rt && before[j].1 == id;
        if !hit {
            kept += 1;
            let (mut want, mut gotc) = (0, 0);
            let mut k = 0; while k < L { if before[k].0 == before[j].0 && before[k].1 == before[j].1 { want += 1; } k += 1; }
            let mut k = 0; while k < m { if after[k].0 == before[j].0 && after[k].1 == before[j].1 { gotc += 1; } k += 1; }
            assert!(gotc == want, "EntityReactors::remove: entries of another reaction type or another reactor stay");
        }
        j += 1;
    }
    assert!(m == kept, "EntityReactors::remove: every entry matching (reaction type, reactor) is gone, nothing else");
    core::mem::forget(er);
}

//# id=K.entity_reactors.remove.L0 props=C01,C06,C16 strength=bounded shape="per-entity list L=0" tier=quick fns=EntityReactors::insert,EntityReactors::remove
#[kani::proof] #[kani::unwind(4)] fn k_entity_reactors_remove_l0() { er_contract::<0, false, true>(); }
//# id=K.entity_reactors.remove.L1 props=C01,C06,C16 strength=bounded shape="per-entity list L=1, all contents" tier=quick fns=EntityReactors::insert,EntityReactors::remove
#[kani::proof] #[kani::unwind(5)] fn k_entity_reactors_remove_l1() { er_contract::<1, false, true>(); }
//# id=K.entity_reactors.remove.L2 props=C01,C06,C16 strength=bounded shape="per-entity list L=2, all contents" tier=quick fns=EntityReactors::insert,EntityReactors::remove
#[kani::proof] #[kani::unwind(6)] fn k_entity_reactors_remove_l2() { er_contract::<2, false, true>(); }
//# id=K.entity_reactors.remove.L3 props=C01,C06,C16 strength=bounded shape="per-entity list L=3, all contents" tier=quick fns=EntityReactors::insert,EntityReactors::remove
#[kani::proof] #[kani::unwind(7)] fn k_entity_reactors_remove_l3() { er_contract::<3, false, true>(); }
//# id=K.entity_reactors.remove.L4 props=C01,C06,C16 strength=bounded shape="per-entity list L=4, all contents" tier=thorough fns=EntityReactors::insert,EntityReactors::remove
#[kani::proof] #[kani::unwind(8)] fn k_entity_reactors_remove_l4() { er_contract::<4, false, true>(); }
//# id=K.entity_reactors.queries.L1 props=C01,C16 strength=bounded shape="per-entity list L=1, all contents" tier=quick fns=EntityReactors::insert,EntityReactors::count,EntityReactors::iter_rtype,EntityReactors::iter_reactors
#[kani::proof] #[kani::unwind(5)] fn k_entity_reactors_queries_l1() { er_contract::<1, true, false>(); }
//# id=K.entity_reactors.queries.L2 props=C01,C16 strength=bounded shape="per-entity list L=2, all contents" tier=quick fns=EntityReactors::insert,EntityReactors::count,EntityReactors::iter_rtype,EntityReactors::iter_reactors
#[kani::proof] #[kani::unwind(6)] fn k_entity_reactors_queries_l2() { er_contract::<2, true, false>(); }

// ---------------------------------------------------------------------------------------------------------------
// K.token.*: RevokeToken (C06, C16).
//   new_from(sys, bundle): the token names EXACTLY the reactor types of the bundle's triggers (what `register` stores under,
//     see Verus unit `triggers`), in bundle order, and carries the reactor id;
//   iter_unique_entities(): every entity named by an entity-scoped element exactly once, nothing for type-wide elements.
// Shape: bundles of 0..3 triggers over entity-scoped / type-wide / despawn kinds; entity ids symbolic.
// ---------------------------------------------------------------------------------------------------------------
#[derive(Clone, Copy)] struct CompA; impl ReactComponent for CompA {}
//# id=K.token.new_from props=C06,C16 strength=bounded shape="bundle (entity_mutation<A>(e1), broadcast<u8>, entity_event<u32>(e2)); entity ids symbolic" tier=quick fns=RevokeToken::new_from,get_reactor_types
#[kani::proof] #[kani::unwind(6)]
fn k_token_new_from() {
    let (e1, e2) = (any_entity(), any_entity());
    let sys = any_sys();
    let t = RevokeToken::new_from(sys, (entity_mutation::<CompA>(e1), broadcast::<u8>(), entity_event::<u32>(e2)));
    assert!(t.id == sys, "RevokeToken::new_from: carries the reactor id");
    assert!(t.reactors.len() == 3, "RevokeToken::new_from: one reactor type per trigger of the bundle");
    assert!(t.reactors[0] == ReactorType::EntityMutation(e1, TypeId::of::<CompA>()), "RevokeToken::new_from: names the trigger's kind, entity and component type");
    assert!(t.reactors[1] == ReactorType::Broadcast(TypeId::of::<u8>()), "RevokeToken::new_from: names the trigger's kind and event type");
    assert!(t.reactors[2] == ReactorType::EntityEvent(e2, TypeId::of::<u32>()), "RevokeToken::new_from: names the trigger's kind, entity and event type");
    let t0 = RevokeToken::new_from(sys, ());
    assert!(t0.reactors.len() == 0 && t0.id == sys, "RevokeToken::new_from: empty bundle => empty token");
    core::mem::forget(t); core::mem::forget(t0);
}
//# id=K.token.unique_entities props=C16,C06 strength=bounded shape="token of 4 elements: 2 entity-scoped on e1 (different kinds), 1 type-wide, 1 despawn(e2); e1/e2 symbolic (possibly equal)" tier=quick fns=RevokeToken::iter_unique_entities,ReactorType::get_entity
#[kani::proof] #[kani::unwind(8)]
fn k_token_unique_entities() {
    let (e1, e2) = (any_entity(), any_entity());
    let arr = [ReactorType::EntityMutation(e1, tid(0)), ReactorType::Broadcast(tid(1)), ReactorType::EntityEvent(e1, tid(1)), ReactorType::Despawn(e2)];
    let t = RevokeToken{ reactors: Arc::from(&arr[..]), id: any_sys() };
    let mut it = t.iter_unique_entities();
    assert!(it.next() == Some(e1), "RevokeToken::iter_unique_entities: the first entity named by the token");
    if e2 != e1 { assert!(it.next() == Some(e2), "RevokeToken::iter_unique_entities: every other entity named by the token"); }
    assert!(it.next().is_none(), "RevokeToken::iter_unique_entities: each entity exactly once; type-wide elements name no entity");
    drop(it);
    core::mem::forget(t);
}
