// Unit `abort` (C03, C05, C18): cleanup_on_abort (syscommand_runner.rs) - what the runner does for a run that cannot happen.
// Contract: the aborted command's own setup runs, THEN its cleanup, each exactly once and unconditionally, then garbage
// collection, then the removal/despawn poll.  (setup consumes the parked metadata - units `trackers`/K.tracker; cleanup
// clears the reacting flag and releases the payload - unit `commands`.)  The four callees are ASSUMED to be total
// functions of the world (uninterpreted effects); fn-pointer calls are outside Verus' subset, so `run` is not opened.
use vstd::prelude::*;
verus! {
//@include prelude.inc
#[verifier::external_body] pub struct World { _p: u8 }
// fn-pointer fields are outside Verus' subset: they are opaque values here; the other field is the repo's.
#[verifier::external_body] pub struct FnPtr { _p: u8 }
pub struct SystemCommandSetup { pub reactor: SystemCommand, pub setup: FnPtr }
pub struct SystemCommandCleanup { pub cleanup: Option<FnPtr> }
// read-only World queries a variant of this function might consult (ASSUMED: pure reads)
pub struct EntityRef { pub e: Entity }
pub struct EntityFetchError;
impl World {
    pub uninterp spec fn alive(&self) -> Set<Entity>;
    #[verifier::external_body]
    pub fn get_entity(&self, e: Entity) -> (r: Result<EntityRef, EntityFetchError>) ensures r is Ok <==> self.alive().contains(e) { unimplemented!() }
}
pub uninterp spec fn setup_eff(s: SystemCommandSetup, w: World) -> World;
pub uninterp spec fn cleanup_eff(c: SystemCommandCleanup, w: World) -> World;
pub uninterp spec fn gc_eff(w: World) -> World;
pub uninterp spec fn poll_eff(w: World) -> World;
//@impl src/react/syscommand_runner.rs impl SystemCommandSetup
//@extern src/react/syscommand_runner.rs impl SystemCommandSetup run
//@| ensures *final(world) == setup_eff(self, *old(world)),
//@endimpl
//@impl src/react/system_command_spawning.rs impl SystemCommandCleanup
//@extern src/react/system_command_spawning.rs impl SystemCommandCleanup run
//@| ensures *final(world) == cleanup_eff(self, *old(world)),
//@endimpl
//@extern src/ecs/auto_despawn.rs - garbage_collect_entities
//@| ensures *final(world) == gc_eff(*old(world)),
//@extern src/react/utils.rs - schedule_removal_and_despawn_reactors
//@| ensures *final(world) == poll_eff(*old(world)),

//@fn src/react/syscommand_runner.rs - cleanup_on_abort
//@| ensures *final(world) == poll_eff(gc_eff(cleanup_eff(cleanup, setup_eff(setup, *old(world))))),

} // verus!
fn main() {}
