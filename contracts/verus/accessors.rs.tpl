// Unit `accessors` (C14): React<C> and ReactResInner<R> accessors, verbatim and generic in the component / resource type.
// Contract (from the property): reads and *_noreact accessors queue nothing; get_mut queues EXACTLY ONE trigger for the
// owning entity; set_if_neq(new) queues one trigger, stores `new` and returns the old value iff `new != old` (by the
// type's own PartialEq - precondition: the type's `==` is what its PartialEq specifies, `obeys_eq_spec`), and otherwise changes nothing, queues nothing and returns None.
// ASSUMED: Commands = handle to a queue whose `syscall` / `trigger_resource_mutation` append one record; `==` on the generic
// type is its PartialEq::eq (vstd's eq_spec).
use vstd::prelude::*;
use vstd::std_specs::cmp::PartialEqSpec;
verus! {
//@include prelude.inc
// core::mem::replace: stores the new value, returns the old one (std).  ASSUMED.
pub assume_specification<T> [core::mem::replace::<T>] (dest: &mut T, src: T) -> (r: T) ensures *final(dest) == src, r == *old(dest);
pub trait ReactComponent {}
pub trait ReactResource {}
pub struct In<T>(pub T);
pub enum Queued { MutationTrigger { sys: int, entity: Entity }, ResourceTrigger { res: int } }
pub uninterp spec fn sys_id<S>(s: S) -> int;
pub uninterp spec fn res_id<R>() -> int;
#[verifier::external_body] pub struct CommandsInner { _p: u8 }
pub type Commands<'w, 's> = &'s mut CommandsInner;
pub type ReactCommands<'w, 's> = &'s mut CommandsInner;
impl CommandsInner {
    pub uninterp spec fn log(&self) -> Seq<Queued>;
    // CommandsSyscallExt::syscall(entity, system): queues one command that runs `system` with `entity`
    #[verifier::external_body]
    pub fn syscall<S>(&mut self, input: Entity, sys: S)
        ensures final(self).log() == old(self).log().push(Queued::MutationTrigger { sys: sys_id(sys), entity: input }),
    { unimplemented!() }
    // ReactCommandsExt::react(): a ReactCommands over the same queue
    #[verifier::external_body]
    pub fn react(&mut self) -> (r: ReactCommands<'_, '_>)
        ensures r.log() == old(self).log(), final(self).log() == final(r).log(),
    { unimplemented!() }
    // ReactCommands::trigger_resource_mutation::<R>(): queues one resource-mutation trigger for R (unit K.dispatch / V.cache)
    #[verifier::external_body]
    pub fn trigger_resource_mutation<R: ReactResource>(&mut self)
        ensures final(self).log() == old(self).log().push(Queued::ResourceTrigger { res: res_id::<R>() }),
    { unimplemented!() }
}
#[verifier::external_body] pub struct ReactCache { _p: u8 }
impl ReactCache {
    #[verifier::external_body] pub fn schedule_mutation_reaction<C: ReactComponent>(verif_in: In<Entity>) { unimplemented!() }
}

//@struct src/react/react_component.rs React
//@impl src/react/react_component.rs impl React
//@fn src/react/react_component.rs impl React get ret=r
//@| ensures *r == self.component,
//@fn src/react/react_component.rs impl React get_mut ret=r
//@| ensures *r == old(self).component, final(self).component == *final(r), final(self).entity == old(self).entity,
//@|         (*final(c)).log() == (*old(c)).log().push(Queued::MutationTrigger { sys: sys_id(ReactCache::schedule_mutation_reaction::<C>), entity: old(self).entity }),
//@|         *final(*final(c)) == *final(*old(c)),
//@fn src/react/react_component.rs impl React get_noreact ret=r
//@| ensures *r == old(self).component, final(self).component == *final(r), final(self).entity == old(self).entity,
//@fn src/react/react_component.rs impl React set_if_neq ret=r
//@| requires C::obeys_eq_spec(),
//@| ensures final(self).entity == old(self).entity, *final(*final(c)) == *final(*old(c)),
//@|         new.eq_spec(&old(self).component) ==> (r is None && final(self).component == old(self).component && (*final(c)).log() == (*old(c)).log()),
//@|         !new.eq_spec(&old(self).component) ==> (r == Some(old(self).component) && final(self).component == new
//@|             && (*final(c)).log() == (*old(c)).log().push(Queued::MutationTrigger { sys: sys_id(ReactCache::schedule_mutation_reaction::<C>), entity: old(self).entity })),
//@fn src/react/react_component.rs impl React take ret=r
//@| ensures r == self.component,
//@endimpl

//@struct src/react/react_resource.rs ReactResInner
//@impl src/react/react_resource.rs impl ReactResInner
//@fn src/react/react_resource.rs impl ReactResInner new ret=r
//@| ensures r.resource == resource,
//@fn src/react/react_resource.rs impl ReactResInner get_mut ret=r
//@| ensures *r == old(self).resource, final(self).resource == *final(r),
//@|         (*final(c)).log() == (*old(c)).log().push(Queued::ResourceTrigger { res: res_id::<R>() }), *final(*final(c)) == *final(*old(c)),
//@fn src/react/react_resource.rs impl ReactResInner get_noreact ret=r
//@| ensures *r == old(self).resource, final(self).resource == *final(r),
//@fn src/react/react_resource.rs impl ReactResInner set_if_neq ret=r
//@| requires R::obeys_eq_spec(),
//@| ensures *final(*final(c)) == *final(*old(c)),
//@|         new.eq_spec(&old(self).resource) ==> (r is None && final(self).resource == old(self).resource && (*final(c)).log() == (*old(c)).log()),
//@|         !new.eq_spec(&old(self).resource) ==> (r == Some(old(self).resource) && final(self).resource == new
//@|             && (*final(c)).log() == (*old(c)).log().push(Queued::ResourceTrigger { res: res_id::<R>() })),
//@fn src/react/react_resource.rs impl ReactResInner take ret=r
//@| ensures r == self.resource,
//@endimpl

} // verus!
fn main() {}
