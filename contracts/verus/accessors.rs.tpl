// Unit `accessors` (C14): React<C> and ReactResInner<R> accessors, verbatim and generic in the component / resource type.
// Contract (from the property): reads and *_noreact accessors queue nothing; get_mut queues EXACTLY ONE trigger for the
// owning entity; set_if_neq(new) queues one trigger, stores `new` and returns the old value iff `new != old` (by the
// type's own PartialEq - precondition: the type's `==` is what its PartialEq specifies, `obeys_eq_spec`), and otherwise changes nothing, queues nothing and returns None.
// ASSUMED: Commands = handle to a queue whose `syscall` / `trigger_resource_mutation` append one record; `==` on the generic
// type is its PartialEq::eq (vstd's eq_spec).
use vstd::prelude::*;
use vstd::std_specs::cmp::PartialEqSpec;
verus! {
//@include prelude.inc
// core::mem::replace: stores the new value, returns the old one (std).  ASSUMED.
pub assume_specification<T> [core::mem::replace::<T>] (dest: &mut T, src: T) -> (r: T) ensures *final(dest) == src, r == *old(dest);
pub trait ReactComponent {}
pub trait ReactResource {}
pub struct In<T>(pub T);
pub enum Queued { MutationTrigger { sys: int, entity: Entity }, ResourceTrigger { res: int } }
pub uninterp spec fn sys_id<S>(s: S) -> int;
pub uninterp spec fn res_id<R>() -> int;
#[verifier::external_body] pub struct CommandsInner { _p: u8 }
pub type Commands<'w, 's> = &'s mut CommandsInner;
pub type ReactCommands<'w, 's> = &'s mut CommandsInner;
impl CommandsInner {
    pub uninterp spec fn log(&self) -> Seq<Queued>;
    // CommandsSyscallExt::syscall(entity, system): queues one command that runs `system` with `entity`
    #[verifier::external_body]
    pub fn syscall<S>(&mut self, input: Entity, sys: S)
        ensures final(self).log() == old(self).log().push(Queued::MutationTrigger { sys: sys_id(sys), entity: input }),
    { unimplemented!() }
    // ReactCommandsExt::react(): a ReactCommands over the same queue
    #[verifier::external_body]
    pub fn react(&mut self) -> (r: ReactCommands<'_, '_>)
        ensures r.log() == old(self).log(), final(self).log() == final(r).log(),
    { unimplemented!() }
    // ReactCommands::trigger_resource_mutation::<R>(): queues one resource-mutation trigger for R (unit K.dispatch / V.cache)
    #[verifier::external_body]
    pub fn trigger_resource_mutation<R: ReactResource>(&mut self)
        ensures final(self).log() == old(self).log().push(Queued::ResourceTrigger { res: res_id::<R>() }),
    { unimplemented!() }
}
#[verifier::external_body] pub struct ReactCache { _p: u8 }
impl ReactCache {
    #[verifier::external_body] pub fn schedule_mutation_reaction<C: ReactComponent>(verif_in: In<Entity>) { unimplemented!() }
}

//@struct src/react/react_component.rs React
//@impl src/react/react_component.rs impl React
//@fn src/react/react_component.rs impl React get ret=r
//@| ensures *r == self.component,
//@fn src/react/react_component.rs impl React get_mut ret=r
//@| ensures *r == old(self).component, final(self).component == *final(r), final(self).entity == old(self).entity,
//@|         (*final(c)).log() == (*old(c)).log().push(Queued::MutationTrigger { sys: sys_id(ReactCache::schedule_mutation_reaction::<C>), entity: old(self).entity }),
//@|         *final(*final(c)) == *final(*old(c)),
//@fn src/react/react_component.rs impl React get_noreact ret=r
//@| ensures *r == old(self).component, final(self).component == *final(r), final(self).entity == old(self).entity,
//@fn src/react/react_component.rs impl React set_if_neq ret=r
//@| requires C::obeys_eq_spec(),
//@| ensures final(self).entity == old(self).entity, *final(*final(c)) == *final(*old(c)),
//@|         new.eq_spec(&old(self).component) ==> (r is None && final(self).component == old(self).component && (*final(c)).log() == (*old(c)).log()),
//@|         !new.eq_spec(&old(self).component) ==> (r == Some(old(self).component) && final(self).component == new
//@|             && (*final(c)).log() == (*old(c)).log().push(Queued::MutationTrigger { sys: sys_id(ReactCache::schedule_mutation_reaction::<C>), entity: old(self).entity })),
//@fn src/react/react_component.rs impl React take ret=r
//@| ensures r == self.component,
//@endimpl

// ---- ReactiveMut<T> (the query-level wrapper): set_if_neq / set_single_if_not_eq delegate to React::set_if_neq of the addressed entity ----
pub struct QueryEntityError;
pub type Mut<'a, T> = &'a mut T;
// Mut::into_inner: the plain `&mut` (Bevy's Mut<T> is a smart pointer; here it IS `&mut T`)
pub trait IntoInner<'a, T> { spec fn cur(&self) -> T; #[verifier::prophetic] spec fn fin(&self) -> T; fn into_inner(self) -> (r: &'a mut T) ensures *r == self.cur(), *final(r) == self.fin(); }
impl<'a, T> IntoInner<'a, T> for &'a mut T {
    open spec fn cur(&self) -> T { **self }
    #[verifier::prophetic] open spec fn fin(&self) -> T { *final(*self) }
    fn into_inner(self) -> (r: &'a mut T) { self }
}
#[verifier::external_body]
pub fn type_name<T>() -> &'static str { core::any::type_name::<T>() }
//@enum src/react/err.rs CobwebReactError
pub trait QData { type Item<'a>; }
#[verifier::external_body] #[verifier::accept_recursive_types(T)]
pub struct QueryRM<'w, 's, T: ReactComponent> { _p: core::marker::PhantomData<(&'w (), &'s (), T)> }
impl<'w, 's, T: ReactComponent> QueryRM<'w, 's, T> {
    /// the React<T> components, per entity
    pub uninterp spec fn comps(&self) -> Map<Entity, React<T>>;
    /// the one entity the query matches (meaningful when it matches exactly one)
    pub uninterp spec fn the_one(&self) -> Entity;
    // Query::get_mut(e): the entity and exclusive access to its React<T>; only that component can change through it
    #[verifier::external_body]
    pub fn get_mut(&mut self, e: Entity) -> (r: Result<(Entity, Mut<'_, React<T>>), QueryEntityError>)
        ensures r is Ok <==> old(self).comps().dom().contains(e),
                r is Ok ==> (r->Ok_0.0 == e && *r->Ok_0.1 == old(self).comps()[e] && final(self).comps() == old(self).comps().insert(e, *final(r->Ok_0.1))),
                r is Err ==> final(self).comps() == old(self).comps(),
    { unimplemented!() }
    // Query::single_mut(): panics unless exactly one entity matches (precondition here)
    #[verifier::external_body]
    pub fn single_mut(&mut self) -> (r: (Entity, Mut<'_, React<T>>))
        requires old(self).comps().dom().contains(old(self).the_one()),
        ensures r.0 == old(self).the_one() && *r.1 == old(self).comps()[r.0] && final(self).comps() == old(self).comps().insert(r.0, *final(r.1)),
    { unimplemented!() }
}
pub struct ReactiveMut<'w, 's, T: ReactComponent> { pub components: QueryRM<'w, 's, T> }
/// what React::set_if_neq does to one component and the command log
pub open spec fn set_spec<T: ReactComponent + PartialEq>(old_c: React<T>, new: T, new_c: React<T>, log0: Seq<Queued>, log1: Seq<Queued>, r: Option<T>) -> bool {
    &&& new_c.entity == old_c.entity
    &&& (new.eq_spec(&old_c.component) ==> (r is None && new_c.component == old_c.component && log1 == log0))
    &&& (!new.eq_spec(&old_c.component) ==> (r == Some(old_c.component) && new_c.component == new
            && log1 == log0.push(Queued::MutationTrigger { sys: sys_id(ReactCache::schedule_mutation_reaction::<T>), entity: old_c.entity })))
}
//@impl src/react/react_component.rs impl ReactiveMut
// get_mut / single_mut queue exactly ONE mutation trigger for the addressed entity and hand out its component (Mut::into_inner via the stand-in trait IntoInner)
//@fn src/react/react_component.rs impl ReactiveMut get_mut ret=r
// precondition = the representation invariant of React<T>: the component records the entity it is attached to (established by ReactCommands::insert, unit react_commands)
//@| requires old(self).components.comps().dom().contains(entity) ==> old(self).components.comps()[entity].entity == entity,
//@| ensures *final(*final(c)) == *final(*old(c)),
//@|         r is Ok <==> old(self).components.comps().dom().contains(entity),
//@|         r is Err ==> ((*final(c)).log() == (*old(c)).log() && final(self).components.comps() == old(self).components.comps()),
//@|         r is Ok ==> ((*final(c)).log() == (*old(c)).log().push(Queued::MutationTrigger { sys: sys_id(ReactCache::schedule_mutation_reaction::<T>), entity: entity })
//@|             && *r->Ok_0 == old(self).components.comps()[entity].component
//@|             && final(self).components.comps() == old(self).components.comps().insert(entity, React { entity: old(self).components.comps()[entity].entity, component: *final(r->Ok_0) })),
//@fn src/react/react_component.rs impl ReactiveMut single_mut ret=r
//@| requires old(self).components.comps().dom().contains(old(self).components.the_one()), old(self).components.comps()[old(self).components.the_one()].entity == old(self).components.the_one(),
//@| ensures *final(*final(c)) == *final(*old(c)), r.0 == old(self).components.the_one(),
//@|         (*final(c)).log() == (*old(c)).log().push(Queued::MutationTrigger { sys: sys_id(ReactCache::schedule_mutation_reaction::<T>), entity: r.0 }),
//@|         *r.1 == old(self).components.comps()[r.0].component,
//@|         final(self).components.comps() == old(self).components.comps().insert(r.0, React { entity: old(self).components.comps()[r.0].entity, component: *final(r.1) }),
//@fn src/react/react_component.rs impl ReactiveMut get_noreact ret=r
//@| ensures r is Ok <==> old(self).components.comps().dom().contains(entity),
//@|         r is Err ==> final(self).components.comps() == old(self).components.comps(),
//@|         r is Ok ==> (*r->Ok_0 == old(self).components.comps()[entity].component
//@|             && final(self).components.comps() == old(self).components.comps().insert(entity, React { entity: old(self).components.comps()[entity].entity, component: *final(r->Ok_0) })),
//@fn src/react/react_component.rs impl ReactiveMut set_if_neq ret=r
//@| requires T::obeys_eq_spec(), old(self).components.comps().dom().contains(entity) ==> old(self).components.comps()[entity].entity == entity,
//@| ensures *final(*final(c)) == *final(*old(c)),
//@|         !old(self).components.comps().dom().contains(entity) ==> (r is None && (*final(c)).log() == (*old(c)).log() && final(self).components.comps() == old(self).components.comps()),
//@|         old(self).components.comps().dom().contains(entity) ==> ({ let nc = final(self).components.comps()[entity];
//@|             final(self).components.comps() =~= old(self).components.comps().insert(entity, nc) && set_spec(old(self).components.comps()[entity], new, nc, (*old(c)).log(), (*final(c)).log(), r) }),
//@fn src/react/react_component.rs impl ReactiveMut set_single_if_not_eq ret=r
//@| requires T::obeys_eq_spec(), old(self).components.comps().dom().contains(old(self).components.the_one()), old(self).components.comps()[old(self).components.the_one()].entity == old(self).components.the_one(),
//@| ensures *final(*final(c)) == *final(*old(c)), r.0 == old(self).components.the_one(),
//@|         ({ let nc = final(self).components.comps()[r.0];
//@|             final(self).components.comps() =~= old(self).components.comps().insert(r.0, nc) && set_spec(old(self).components.comps()[r.0], new, nc, (*old(c)).log(), (*final(c)).log(), r.1) }),
//@endimpl

//@struct src/react/react_resource.rs ReactResInner
//@impl src/react/react_resource.rs impl ReactResInner
//@fn src/react/react_resource.rs impl ReactResInner new ret=r
//@| ensures r.resource == resource,
//@fn src/react/react_resource.rs impl ReactResInner get_mut ret=r
//@| ensures *r == old(self).resource, final(self).resource == *final(r),
//@|         (*final(c)).log() == (*old(c)).log().push(Queued::ResourceTrigger { res: res_id::<R>() }), *final(*final(c)) == *final(*old(c)),
//@fn src/react/react_resource.rs impl ReactResInner get_noreact ret=r
//@| ensures *r == old(self).resource, final(self).resource == *final(r),
//@fn src/react/react_resource.rs impl ReactResInner set_if_neq ret=r
//@| requires R::obeys_eq_spec(),
//@| ensures *final(*final(c)) == *final(*old(c)),
//@|         new.eq_spec(&old(self).resource) ==> (r is None && final(self).resource == old(self).resource && (*final(c)).log() == (*old(c)).log()),
//@|         !new.eq_spec(&old(self).resource) ==> (r == Some(old(self).resource) && final(self).resource == new
//@|             && (*final(c)).log() == (*old(c)).log().push(Queued::ResourceTrigger { res: res_id::<R>() })),
//@fn src/react/react_resource.rs impl ReactResInner take ret=r
//@| ensures r == self.resource,
//@endimpl

// ---- ReactResMut<R>: the system-param wrapper delegates to ReactResInner<R> ------------------------------------------------------
pub type ResMut<'w, T> = &'w mut T;
//@struct src/react/react_resource.rs ReactResMut
//@impl src/react/react_resource.rs impl ReactResMut
//@fn src/react/react_resource.rs impl ReactResMut get_mut ret=r
//@| ensures *r == old(self).inner.resource, final(self).inner.resource == *final(r),
//@|         (*final(c)).log() == (*old(c)).log().push(Queued::ResourceTrigger { res: res_id::<R>() }), *final(*final(c)) == *final(*old(c)),
//@fn src/react/react_resource.rs impl ReactResMut get_noreact ret=r
//@| ensures *r == old(self).inner.resource, final(self).inner.resource == *final(r),
//@fn src/react/react_resource.rs impl ReactResMut set_if_neq ret=r
//@| requires R::obeys_eq_spec(),
//@| ensures *final(*final(c)) == *final(*old(c)),
//@|         new.eq_spec(&old(self).inner.resource) ==> (r is None && final(self).inner.resource == old(self).inner.resource && (*final(c)).log() == (*old(c)).log()),
//@|         !new.eq_spec(&old(self).inner.resource) ==> (r == Some(old(self).inner.resource) && final(self).inner.resource == new
//@|             && (*final(c)).log() == (*old(c)).log().push(Queued::ResourceTrigger { res: res_id::<R>() })),
//@endimpl

} // verus!
fn main() {}
