// Unit `cache` (C01, C07, C08): the registration tables of ReactCache - register_* and the type-wide schedule_*
// functions, verbatim, for tables and lists of ANY size.  Maps are the assumed finite partial maps of cache_prelude.inc.
use vstd::prelude::*;
verus! {
//@include prelude.inc
//@enum src/react/utils.rs EntityReactionType
//@enum src/react/utils.rs ReactorHandle
//@impl src/react/utils.rs impl ReactorHandle
//@fn src/react/utils.rs impl ReactorHandle sys_command ret=r
//@| ensures r == self.sys(),
//@endimpl
impl ReactorHandle {
    pub open spec fn sys(&self) -> SystemCommand { match *self { ReactorHandle::Persistent(s) => s, ReactorHandle::AutoDespawn(sig) => SystemCommand(sig.spec_entity()) } }
}
//@enum src/react/commands.rs ReactionCommand
//@struct src/react/commands.rs DataEntityCounter
//@impl src/react/commands.rs impl DataEntityCounter
//@fn src/react/commands.rs impl DataEntityCounter new ret=r
//@| ensures r.count == count,
//@endimpl
//@include cache_prelude.inc

//@struct src/react/react_cache.rs ComponentReactors
pub open spec fn cr_is_default(c: ComponentReactors) -> bool { c.insertion_callbacks@.len() == 0 && c.mutation_callbacks@.len() == 0 && c.removal_callbacks@.len() == 0 }
// ASSUMED: `Entry::or_default` calls the Default impl verified right below.
pub broadcast axiom fn axiom_cr_default() ensures #[trigger] cr_is_default(spec_default::<ComponentReactors>());
//@impl src/react/react_cache.rs impl Default for ComponentReactors
//@fn src/react/react_cache.rs impl Default for ComponentReactors default ret=r
//@| ensures cr_is_default(r),
//@endimpl
//@impl src/react/react_cache.rs impl ComponentReactors
//@fn src/react/react_cache.rs impl ComponentReactors is_empty ret=b
//@| ensures b == cr_is_default(*self),
//@endimpl

//@struct src/react/react_cache.rs ReactCache

// ---- abstract view: one list per (table kind, key); an absent key is the empty list ----
pub open spec fn tab_ins(c: ReactCache, t: TypeId) -> Seq<ReactorHandle> { if c.component_reactors@.dom().contains(t) { c.component_reactors@[t].insertion_callbacks@ } else { Seq::empty() } }
pub open spec fn tab_mut(c: ReactCache, t: TypeId) -> Seq<ReactorHandle> { if c.component_reactors@.dom().contains(t) { c.component_reactors@[t].mutation_callbacks@ } else { Seq::empty() } }
pub open spec fn tab_rem(c: ReactCache, t: TypeId) -> Seq<ReactorHandle> { if c.component_reactors@.dom().contains(t) { c.component_reactors@[t].removal_callbacks@ } else { Seq::empty() } }
pub open spec fn tab_of<K>(m: Map<K, Vec<ReactorHandle>>, k: K) -> Seq<ReactorHandle> { if m.dom().contains(k) { m[k]@ } else { Seq::empty() } }
/// everything except the component table is untouched
pub open spec fn others_same_but_component(a: ReactCache, b: ReactCache) -> bool {
    a.any_entity_event_reactors@ == b.any_entity_event_reactors@ && a.resource_reactors@ == b.resource_reactors@
    && a.broadcast_reactors@ == b.broadcast_reactors@ && a.despawn_reactors@ == b.despawn_reactors@
    && a.tracked_removals@ == b.tracked_removals@ && a.removal_checkers@ == b.removal_checkers@
}
pub open spec fn others_same_but_removals(a: ReactCache, b: ReactCache) -> bool {
    a.any_entity_event_reactors@ == b.any_entity_event_reactors@ && a.resource_reactors@ == b.resource_reactors@
    && a.broadcast_reactors@ == b.broadcast_reactors@ && a.despawn_reactors@ == b.despawn_reactors@
}
pub open spec fn resource_cmds(h: Seq<ReactorHandle>) -> Seq<Queued> { h.map_values(|x: ReactorHandle| Queued::Cmd(ReactionCommand::Resource{ reactor: x.sys() })) }
pub open spec fn broadcast_cmds(h: Seq<ReactorHandle>, d: Entity) -> Seq<Queued> { h.map_values(|x: ReactorHandle| Queued::Cmd(ReactionCommand::BroadcastEvent{ data_entity: d, reactor: x.sys() })) }
pub open spec fn component_same(a: ReactCache, b: ReactCache) -> bool { a.component_reactors@ == b.component_reactors@ && a.tracked_removals@ == b.tracked_removals@ && a.removal_checkers@ == b.removal_checkers@ }

//@impl src/react/react_cache.rs impl ReactCache
//@fn src/react/react_cache.rs impl ReactCache register_insertion_reactor
//@| ensures tab_ins(*final(self), type_id_spec::<C>()) == tab_ins(*old(self), type_id_spec::<C>()).push(handle),
//@|         forall|t: TypeId| t != type_id_spec::<C>() ==> tab_ins(*final(self), t) == tab_ins(*old(self), t),
//@|         forall|t: TypeId| tab_mut(*final(self), t) == tab_mut(*old(self), t) && tab_rem(*final(self), t) == tab_rem(*old(self), t),
//@|         others_same_but_component(*final(self), *old(self)),
//@ghost | broadcast use axiom_vec_default, axiom_cr_default;
//@fn src/react/react_cache.rs impl ReactCache register_mutation_reactor
//@| ensures tab_mut(*final(self), type_id_spec::<C>()) == tab_mut(*old(self), type_id_spec::<C>()).push(handle),
//@|         forall|t: TypeId| t != type_id_spec::<C>() ==> tab_mut(*final(self), t) == tab_mut(*old(self), t),
//@|         forall|t: TypeId| tab_ins(*final(self), t) == tab_ins(*old(self), t) && tab_rem(*final(self), t) == tab_rem(*old(self), t),
//@|         others_same_but_component(*final(self), *old(self)),
//@ghost | broadcast use axiom_vec_default, axiom_cr_default;
//@fn src/react/react_cache.rs impl ReactCache register_removal_reactor
//@| ensures tab_rem(*final(self), type_id_spec::<C>()) == tab_rem(*old(self), type_id_spec::<C>()).push(handle),
//@|         forall|t: TypeId| t != type_id_spec::<C>() ==> tab_rem(*final(self), t) == tab_rem(*old(self), t),
//@|         forall|t: TypeId| tab_ins(*final(self), t) == tab_ins(*old(self), t) && tab_mut(*final(self), t) == tab_mut(*old(self), t),
//@|         others_same_but_component(*final(self), *old(self)),
//@ghost | broadcast use axiom_vec_default, axiom_cr_default;
//@fn src/react/react_cache.rs impl ReactCache register_any_entity_event_reactor
//@| ensures tab_of(final(self).any_entity_event_reactors@, type_id_spec::<E>()) == tab_of(old(self).any_entity_event_reactors@, type_id_spec::<E>()).push(handle),
//@|         forall|t: TypeId| t != type_id_spec::<E>() ==> tab_of(final(self).any_entity_event_reactors@, t) == tab_of(old(self).any_entity_event_reactors@, t),
//@|         component_same(*final(self), *old(self)), final(self).resource_reactors@ == old(self).resource_reactors@,
//@|         final(self).broadcast_reactors@ == old(self).broadcast_reactors@, final(self).despawn_reactors@ == old(self).despawn_reactors@,
//@ghost | broadcast use axiom_vec_default;
//@fn src/react/react_cache.rs impl ReactCache register_resource_mutation_reactor
//@| ensures tab_of(final(self).resource_reactors@, type_id_spec::<R>()) == tab_of(old(self).resource_reactors@, type_id_spec::<R>()).push(handle),
//@|         forall|t: TypeId| t != type_id_spec::<R>() ==> tab_of(final(self).resource_reactors@, t) == tab_of(old(self).resource_reactors@, t),
//@|         component_same(*final(self), *old(self)), final(self).any_entity_event_reactors@ == old(self).any_entity_event_reactors@,
//@|         final(self).broadcast_reactors@ == old(self).broadcast_reactors@, final(self).despawn_reactors@ == old(self).despawn_reactors@,
//@ghost | broadcast use axiom_vec_default;
//@fn src/react/react_cache.rs impl ReactCache register_broadcast_reactor
//@| ensures tab_of(final(self).broadcast_reactors@, type_id_spec::<E>()) == tab_of(old(self).broadcast_reactors@, type_id_spec::<E>()).push(handle),
//@|         forall|t: TypeId| t != type_id_spec::<E>() ==> tab_of(final(self).broadcast_reactors@, t) == tab_of(old(self).broadcast_reactors@, t),
//@|         component_same(*final(self), *old(self)), final(self).any_entity_event_reactors@ == old(self).any_entity_event_reactors@,
//@|         final(self).resource_reactors@ == old(self).resource_reactors@, final(self).despawn_reactors@ == old(self).despawn_reactors@,
//@ghost | broadcast use axiom_vec_default;
//@fn src/react/react_cache.rs impl ReactCache register_despawn_reactor
//@| ensures tab_of(final(self).despawn_reactors@, entity) == tab_of(old(self).despawn_reactors@, entity).push(handle),
//@|         forall|e: Entity| e != entity ==> tab_of(final(self).despawn_reactors@, e) == tab_of(old(self).despawn_reactors@, e),
//@|         component_same(*final(self), *old(self)), final(self).any_entity_event_reactors@ == old(self).any_entity_event_reactors@,
//@|         final(self).resource_reactors@ == old(self).resource_reactors@, final(self).broadcast_reactors@ == old(self).broadcast_reactors@,
//@ghost | broadcast use axiom_vec_default;
// ---- type-wide dispatch: what a trigger queues is EXACTLY one command per entry of its table, in table order ----
//@fn src/react/react_cache.rs impl ReactCache track_removals
//@| ensures old(self).tracked_removals@.contains(type_id_spec::<C>()) ==> *final(self) == *old(self),
//@|         !old(self).tracked_removals@.contains(type_id_spec::<C>()) ==> (
//@|             final(self).tracked_removals@ == old(self).tracked_removals@.insert(type_id_spec::<C>())
//@|             && final(self).removal_checkers@.len() == old(self).removal_checkers@.len() + 1
//@|             && final(self).removal_checkers@.last().component_id() == type_id_spec::<C>()
//@|             && final(self).removal_checkers@.drop_last() == old(self).removal_checkers@),
//@|         final(self).component_reactors@ == old(self).component_reactors@, others_same_but_removals(*final(self), *old(self)),
//@fn src/react/react_cache.rs impl ReactCache schedule_resource_mutation_reaction
//@| ensures final(commands).log() == old(commands).log() + resource_cmds(tab_of(cache.value.resource_reactors@, type_id_spec::<R>())),
//@loopvar 1 it
//@loop 1 | invariant commands.log() == old(commands).log() + resource_cmds(handlers@).subrange(0, it.index@),
//@fn src/react/react_cache.rs impl ReactCache schedule_broadcast_reaction
//@| ensures ({ let tab = tab_of(cache.value.broadcast_reactors@, type_id_spec::<E>());
//@|            let d = fresh_entity(old(commands).log());
//@|            final(commands).log() == (if tab.len() == 0 { old(commands).log() }
//@|                else { old(commands).log().push(Queued::SpawnData { entity: d, readers: tab.len() as usize }) + broadcast_cmds(tab, d) }) }),
//@loopvar 1 it
//@loop 1 | invariant commands.log() == old(commands).log().push(Queued::SpawnData { entity: data_entity, readers: num }) + broadcast_cmds(handlers@, data_entity).subrange(0, it.index@), num == handlers@.len(), data_entity == fresh_entity(old(commands).log()),
//@endimpl

} // verus!
fn main() {}
