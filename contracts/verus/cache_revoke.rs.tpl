// Unit `cache_revoke` (C06, C01, C07): ReactCache::revoke_{any_entity_event,resource_mutation,broadcast,despawn}_reactor
// (react_cache.rs) for lists of ANY length.
// Contract (from the property): exactly ONE entry - the first - of the revoked id is removed from the list under the key, every
// other entry of that list stays (multiset comparison: no order among reactors is promised), an id or key that is not there changes nothing, every other key of the map is
// untouched, and the map entry is dropped exactly when its list became empty (absent key == empty list in the view).
// Two mechanical normalizations make the loops readable for Verus (both stated in DESIGN 9.2): in this unit `Vec` is the
// assumed sequence stand-in of vec_prelude.inc (its `iter().enumerate()` is an iterator type Verus' for-loops understand),
// and `if COND { continue; } REST` inside the for body is read as `if COND {} else { REST }` (rule 12).
// The same contract is discharged on the COMPILED code, with std's Vec, by K.cache.revoke.* for lists of length <= 4.
use vstd::prelude::*;
verus! {
//@include prelude.inc
//@enum src/react/utils.rs ReactorHandle
//@impl src/react/utils.rs impl ReactorHandle
//@fn src/react/utils.rs impl ReactorHandle sys_command ret=r
//@| ensures r == self.sys(),
//@endimpl
impl ReactorHandle {
    pub open spec fn sys(&self) -> SystemCommand { match *self { ReactorHandle::Persistent(s) => s, ReactorHandle::AutoDespawn(sig) => SystemCommand(sig.spec_entity()) } }
}
//@include vec_prelude.inc
// bevy::utils::HashMap = finite partial map; get_mut hands out the stored value, remove deletes the key.  ASSUMED.
#[verifier::external_body]
#[verifier::reject_recursive_types(K)]
#[verifier::reject_recursive_types(V)]
pub struct HashMap<K, V> { _k: core::marker::PhantomData<(K, V)> }
impl<K, V> HashMap<K, V> {
    pub uninterp spec fn view(&self) -> Map<K, V>;
    #[verifier::external_body]
    pub fn get_mut(&mut self, k: &K) -> (r: Option<&mut V>)
        ensures r is Some <==> old(self).view().dom().contains(*k),
                r is Some ==> (*r->Some_0 == old(self).view()[*k] && final(self).view() == old(self).view().insert(*k, *final(r->Some_0))),
                r is None ==> final(self).view() == old(self).view(),
    { unimplemented!() }
    #[verifier::external_body]
    pub fn remove(&mut self, k: &K) -> (r: Option<V>) ensures final(self).view() == old(self).view().remove(*k) { unimplemented!() }
}
//@enum src/react/utils.rs EntityReactionType
pub struct ComponentReactors { pub insertion_callbacks: Vec<ReactorHandle>, pub mutation_callbacks: Vec<ReactorHandle>, pub removal_callbacks: Vec<ReactorHandle> }
impl ComponentReactors {
//@fn? src/react/react_cache.rs impl ComponentReactors is_empty ret=b
//@| ensures b == (self.insertion_callbacks@.len() == 0 && self.mutation_callbacks@.len() == 0 && self.removal_callbacks@.len() == 0),
}
// bevy::utils::HashSet = finite set.  ASSUMED.
#[verifier::external_body]
#[verifier::reject_recursive_types(K)]
pub struct HashSet<K> { _k: core::marker::PhantomData<K> }
impl<K> HashSet<K> {
    pub uninterp spec fn view(&self) -> Set<K>;
    #[verifier::external_body]
    pub fn remove(&mut self, k: &K) -> (r: bool) ensures r == old(self).view().contains(*k), final(self).view() == old(self).view().remove(*k) { unimplemented!() }
    #[verifier::external_body]
    pub fn contains(&self, k: &K) -> (r: bool) ensures r == self.view().contains(*k) { unimplemented!() }
}
// the checker of one component type (react_cache.rs); its boxed system is opaque here
#[verifier::external_body] #[verifier::accept_recursive_types(T)] #[verifier::accept_recursive_types(I)] #[verifier::accept_recursive_types(O)]
pub struct SysCall<T, I, O> { _p: core::marker::PhantomData<(T, I, O)> }
//@struct src/react/react_cache.rs RemovalChecker
pub struct ReactCache {
    pub component_reactors: HashMap<TypeId, ComponentReactors>,
    pub despawn_reactors: HashMap<Entity, Vec<ReactorHandle>>,
    pub any_entity_event_reactors: HashMap<TypeId, Vec<ReactorHandle>>,
    pub resource_reactors: HashMap<TypeId, Vec<ReactorHandle>>,
    pub broadcast_reactors: HashMap<TypeId, Vec<ReactorHandle>>,
    // removal polling state (C08): which component types are watched, and their checkers.  No revocation may touch it: the checker
    // of a component type also serves the entity-scoped removal reactors, which the type-wide lists do not count.
    pub tracked_removals: HashSet<TypeId>,
    pub removal_checkers: Vec<RemovalChecker>,
}
// ---- specification: the list under a key (absent key = empty list) and what a revocation does to it -----------------
pub open spec fn tab<K>(m: Map<K, Vec<ReactorHandle>>, k: K) -> Seq<ReactorHandle> { if m.dom().contains(k) { m[k]@ } else { Seq::empty() } }
/// `after` is `before` minus ONE entry: the first one of `id` (nothing if `id` does not occur).  Compared as MULTISETS: the
/// properties promise no order among the reactors of one trigger, so a reordering removal (swap_remove) must not alarm.
pub open spec fn first_removed(before: Seq<ReactorHandle>, after: Seq<ReactorHandle>, id: SystemCommand) -> bool {
    &&& ((forall|j: int| 0 <= j < before.len() ==> (#[trigger] before[j]).sys() != id) ==> after =~= before)
    &&& (forall|i: int| (0 <= i < before.len() && (#[trigger] before[i]).sys() == id && (forall|j: int| 0 <= j < i ==> (#[trigger] before[j]).sys() != id))
            ==> (after.len() == before.len() - 1 && after.to_multiset() =~= before.to_multiset().remove(before[i])))
}
pub proof fn lemma_swap_remove<A>(s: Seq<A>, i: int)
    requires 0 <= i < s.len()
    ensures s.update(i, s.last()).drop_last().to_multiset() =~= s.to_multiset().remove(s[i])
{
    let n = s.len() as int;
    if i == n - 1 {
        assert(s.update(i, s.last()) =~= s);
        assert(s.drop_last() =~= s.remove(n - 1));
        vstd::seq_lib::to_multiset_remove(s, n - 1);
    } else {
        let d = s.drop_last();
        assert(d =~= s.remove(n - 1));
        vstd::seq_lib::to_multiset_remove(s, n - 1);
        assert(s.update(i, s.last()).drop_last() =~= d.update(i, s.last()));
        vstd::seq_lib::to_multiset_update(d, i, s.last());
        assert(d[i] == s[i]);
        s.to_multiset_ensures();
        assert(s.contains(s.last())) by { assert(s[n - 1] == s.last()); }
        assert(s.to_multiset().count(s.last()) > 0);
        assert(s.to_multiset().remove(s.last()).insert(s.last()) =~= s.to_multiset());
    }
}
pub open spec fn revoked<K>(old_m: Map<K, Vec<ReactorHandle>>, new_m: Map<K, Vec<ReactorHandle>>, key: K, id: SystemCommand) -> bool {
    &&& first_removed(tab(old_m, key), tab(new_m, key), id)
    &&& forall|k: K| k != key ==> (new_m.dom().contains(k) == old_m.dom().contains(k) && (old_m.dom().contains(k) ==> #[trigger] new_m[k] == old_m[k]))
}

pub open spec fn comp_type(rt: EntityReactionType) -> TypeId { match rt { EntityReactionType::Insertion(t) => t, EntityReactionType::Mutation(t) => t, EntityReactionType::Removal(t) => t, EntityReactionType::Event(t) => t } }
pub open spec fn same_kind(a: EntityReactionType, b: EntityReactionType) -> bool { (a is Insertion && b is Insertion) || (a is Mutation && b is Mutation) || (a is Removal && b is Removal) || (a is Event && b is Event) }
/// the list of kind `rt` of component `t` (absent component entry = three empty lists)
pub open spec fn clist(m: Map<TypeId, ComponentReactors>, t: TypeId, rt: EntityReactionType) -> Seq<ReactorHandle> {
    if !m.dom().contains(t) { Seq::empty() } else { match rt { EntityReactionType::Insertion(_) => m[t].insertion_callbacks@, EntityReactionType::Mutation(_) => m[t].mutation_callbacks@, EntityReactionType::Removal(_) => m[t].removal_callbacks@, EntityReactionType::Event(_) => Seq::empty() } }
}
impl ReactCache {
//@fn src/react/react_cache.rs impl ReactCache revoke_broadcast_reactor
//@before let _ = self. | assert(callbacks@ =~= Seq::<ReactorHandle>::empty());
//@| ensures revoked(old(self).broadcast_reactors.view(), final(self).broadcast_reactors.view(), event_id, reactor_id),
//@|         final(self).component_reactors == old(self).component_reactors, final(self).despawn_reactors == old(self).despawn_reactors, final(self).any_entity_event_reactors == old(self).any_entity_event_reactors, final(self).resource_reactors == old(self).resource_reactors,
//@|     final(self).tracked_removals@ == old(self).tracked_removals@, final(self).removal_checkers@ == old(self).removal_checkers@,
//@continue_to_else 1
//@ghost | broadcast use axiom_vec_len;
//@loopvar 1 it
//@loop 1 | invariant_except_break old(self).broadcast_reactors.view().dom().contains(event_id), callbacks@ == old(self).broadcast_reactors.view()[event_id]@,
//@loop 1 |     it.seq() =~= Seq::new(callbacks@.len(), |i: int| (i as usize, &callbacks@[i])), it.index@ <= callbacks@.len(), callbacks@.len() <= usize::MAX,
//@loop 1 |     forall|j: int| 0 <= j < it.index@ ==> (#[trigger] callbacks@[j]).sys() != reactor_id,
//@loop 1 | ensures first_removed(old(self).broadcast_reactors.view()[event_id]@, callbacks@, reactor_id),
//@loopbody 1 | assert(it.seq()[it.index@ as int] == (idx, handle)); assert(*handle == callbacks@[it.index@ as int]); assert(idx == it.index@); proof { vstd::seq_lib::to_multiset_remove(callbacks@, it.index@ as int); lemma_swap_remove(callbacks@, it.index@ as int); }
//@fn src/react/react_cache.rs impl ReactCache revoke_resource_mutation_reactor
//@before let _ = self. | assert(callbacks@ =~= Seq::<ReactorHandle>::empty());
//@| ensures revoked(old(self).resource_reactors.view(), final(self).resource_reactors.view(), resource_id, reactor_id),
//@|         final(self).despawn_reactors == old(self).despawn_reactors, final(self).any_entity_event_reactors == old(self).any_entity_event_reactors, final(self).broadcast_reactors == old(self).broadcast_reactors,
//@|     final(self).tracked_removals@ == old(self).tracked_removals@, final(self).removal_checkers@ == old(self).removal_checkers@,
//@continue_to_else 1
//@ghost | broadcast use axiom_vec_len;
//@loopvar 1 it
//@loop 1 | invariant_except_break old(self).resource_reactors.view().dom().contains(resource_id), callbacks@ == old(self).resource_reactors.view()[resource_id]@,
//@loop 1 |     it.seq() =~= Seq::new(callbacks@.len(), |i: int| (i as usize, &callbacks@[i])), it.index@ <= callbacks@.len(), callbacks@.len() <= usize::MAX,
//@loop 1 |     forall|j: int| 0 <= j < it.index@ ==> (#[trigger] callbacks@[j]).sys() != reactor_id,
//@loop 1 | ensures first_removed(old(self).resource_reactors.view()[resource_id]@, callbacks@, reactor_id),
//@loopbody 1 | assert(it.seq()[it.index@ as int] == (idx, handle)); assert(*handle == callbacks@[it.index@ as int]); assert(idx == it.index@); proof { vstd::seq_lib::to_multiset_remove(callbacks@, it.index@ as int); lemma_swap_remove(callbacks@, it.index@ as int); }
//@fn src/react/react_cache.rs impl ReactCache revoke_any_entity_event_reactor
//@before let _ = self. | assert(callbacks@ =~= Seq::<ReactorHandle>::empty());
//@| ensures revoked(old(self).any_entity_event_reactors.view(), final(self).any_entity_event_reactors.view(), event_id, reactor_id),
//@|         final(self).despawn_reactors == old(self).despawn_reactors, final(self).resource_reactors == old(self).resource_reactors, final(self).broadcast_reactors == old(self).broadcast_reactors,
//@|     final(self).tracked_removals@ == old(self).tracked_removals@, final(self).removal_checkers@ == old(self).removal_checkers@,
//@continue_to_else 1
//@ghost | broadcast use axiom_vec_len;
//@loopvar 1 it
//@loop 1 | invariant_except_break old(self).any_entity_event_reactors.view().dom().contains(event_id), callbacks@ == old(self).any_entity_event_reactors.view()[event_id]@,
//@loop 1 |     it.seq() =~= Seq::new(callbacks@.len(), |i: int| (i as usize, &callbacks@[i])), it.index@ <= callbacks@.len(), callbacks@.len() <= usize::MAX,
//@loop 1 |     forall|j: int| 0 <= j < it.index@ ==> (#[trigger] callbacks@[j]).sys() != reactor_id,
//@loop 1 | ensures first_removed(old(self).any_entity_event_reactors.view()[event_id]@, callbacks@, reactor_id),
//@loopbody 1 | assert(it.seq()[it.index@ as int] == (idx, handle)); assert(*handle == callbacks@[it.index@ as int]); assert(idx == it.index@); proof { vstd::seq_lib::to_multiset_remove(callbacks@, it.index@ as int); lemma_swap_remove(callbacks@, it.index@ as int); }
//@fn src/react/react_cache.rs impl ReactCache revoke_despawn_reactor
//@before let _ = self. | assert(callbacks@ =~= Seq::<ReactorHandle>::empty());
//@| ensures revoked(old(self).despawn_reactors.view(), final(self).despawn_reactors.view(), entity, reactor_id),
//@|         final(self).any_entity_event_reactors == old(self).any_entity_event_reactors, final(self).resource_reactors == old(self).resource_reactors, final(self).broadcast_reactors == old(self).broadcast_reactors,
//@|     final(self).tracked_removals@ == old(self).tracked_removals@, final(self).removal_checkers@ == old(self).removal_checkers@,
//@continue_to_else 1
//@ghost | broadcast use axiom_vec_len;
//@loopvar 1 it
//@loop 1 | invariant_except_break old(self).despawn_reactors.view().dom().contains(entity), callbacks@ == old(self).despawn_reactors.view()[entity]@,
//@loop 1 |     it.seq() =~= Seq::new(callbacks@.len(), |i: int| (i as usize, &callbacks@[i])), it.index@ <= callbacks@.len(), callbacks@.len() <= usize::MAX,
//@loop 1 |     forall|j: int| 0 <= j < it.index@ ==> (#[trigger] callbacks@[j]).sys() != reactor_id,
//@loop 1 | ensures first_removed(old(self).despawn_reactors.view()[entity]@, callbacks@, reactor_id),
//@loopbody 1 | assert(it.seq()[it.index@ as int] == (idx, handle)); assert(*handle == callbacks@[it.index@ as int]); assert(idx == it.index@); proof { vstd::seq_lib::to_multiset_remove(callbacks@, it.index@ as int); lemma_swap_remove(callbacks@, it.index@ as int); }
//@fn src/react/react_cache.rs impl ReactCache revoke_component_reactor
//@before let _ = self. | assert(reactors.insertion_callbacks@ =~= Seq::<ReactorHandle>::empty() && reactors.mutation_callbacks@ =~= Seq::<ReactorHandle>::empty() && reactors.removal_callbacks@ =~= Seq::<ReactorHandle>::empty());
//@| requires !(rtype is Event),
//@| ensures ({ let t = comp_type(rtype); let om = old(self).component_reactors.view(); let nm = final(self).component_reactors.view();
//@|     &&& first_removed(clist(om, t, rtype), clist(nm, t, rtype), reactor_id)
//@|     // the two sibling lists of the same component are untouched
//@|     &&& forall|k: EntityReactionType| (!(k is Event) && comp_type(k) == t && !same_kind(k, rtype)) ==> #[trigger] clist(nm, t, k) =~= clist(om, t, k)
//@|     // every other component type is untouched
//@|     &&& forall|u: TypeId| u != t ==> (nm.dom().contains(u) == om.dom().contains(u) && (om.dom().contains(u) ==> #[trigger] nm[u] == om[u])) }),
//@|     final(self).despawn_reactors == old(self).despawn_reactors, final(self).any_entity_event_reactors == old(self).any_entity_event_reactors,
//@|     final(self).resource_reactors == old(self).resource_reactors, final(self).broadcast_reactors == old(self).broadcast_reactors,
//@|     final(self).tracked_removals@ == old(self).tracked_removals@, final(self).removal_checkers@ == old(self).removal_checkers@,
//@continue_to_else 1
//@ghost | broadcast use axiom_vec_len;
//@loopvar 1 it
//@loop 1 | invariant_except_break callbacks@ == clist(old(self).component_reactors.view(), comp_id, rtype), comp_id == comp_type(rtype), old(self).component_reactors.view().dom().contains(comp_id),
//@loop 1 |     it.seq() =~= Seq::new(callbacks@.len(), |i: int| (i as usize, &callbacks@[i])), it.index@ <= callbacks@.len(), callbacks@.len() <= usize::MAX,
//@loop 1 |     forall|j: int| 0 <= j < it.index@ ==> (#[trigger] callbacks@[j]).sys() != reactor_id,
//@loop 1 | ensures first_removed(clist(old(self).component_reactors.view(), comp_id, rtype), callbacks@, reactor_id),
//@loopbody 1 | assert(it.seq()[it.index@ as int] == (idx, handle)); assert(*handle == callbacks@[it.index@ as int]); assert(idx == it.index@); proof { vstd::seq_lib::to_multiset_remove(callbacks@, it.index@ as int); lemma_swap_remove(callbacks@, it.index@ as int); }
}

} // verus!
fn main() {}
