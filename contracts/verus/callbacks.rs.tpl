// Unit `callbacks` (C13, C17, C04): CallbackSystem<I, O> (callbacks.rs) - the take / initialise-once / run / store-back cycle of a boxed
// system, verbatim except that the parameter type `impl FnOnce(&mut World) + Send + Sync + 'static` is the opaque stand-in `CleanupFn`
// (rule 19) and the one direct call through it is an uninterpreted effect (rule 11).  Generic in input / output type, no bound on the
// number of runs: the contract is per call, and it is an invariant-style contract (state after = f(state before)):
//   Empty            => the cleanup still runs (once), nothing else, None is returned, the slot stays Empty;
//   New(s)           => s is initialised EXACTLY ONCE, then run by run_initialized_system with the given input and cleanup; the slot
//                       becomes Initialized(that same system value as the run left it); Some(output);
//   Initialized(s)   => NO initialisation; run; the slot is Initialized(the same system value as the run left it); Some(output).
// Hence over any sequence of runs on one slot: one initialisation, always the same instance (C13), state persists (C17).
// run_initialized_system (unsafe: run_unsafe + cleanup + apply_deferred) is an uninterpreted effect here; its cleanup placement is
// discharged on the real code by K.callbacks.run_initialized.*.
use vstd::prelude::*;
verus! {
#[verifier::external_body] pub struct World { _p: u8 }
pub trait SystemInput: Sized { type Inner<'i>; }
#[verifier::external_body] #[verifier::accept_recursive_types(I)] #[verifier::accept_recursive_types(O)]
pub struct Sys<I, O> { _p: core::marker::PhantomData<(I, O)> }
pub type BoxedSystem<I, O> = Box<Sys<I, O>>;
pub uninterp spec fn enc<T>(t: T) -> int;
pub uninterp spec fn init_eff<S>(w: World, s: S) -> (World, S);
pub uninterp spec fn rinit_eff<S, O>(w: World, s: S, input: int, c: CleanupFn) -> (World, S, O);
pub uninterp spec fn cleanup_eff(w: World, c: CleanupFn) -> World;
pub uninterp spec fn new_raw<S, IS>(s: IS) -> S;
pub trait IntoSystem<I, O, M>: Sized {
    type System: System<In = I, Out = O>;
    fn into_system(this: Self) -> (r: Self::System) ensures r == new_raw::<Self::System, Self>(this);
}
// bevy System: the part these wrappers use.  `initialize` is an uninterpreted effect.
pub trait System: Sized {
    type In: SystemInput; type Out;
    fn initialize(&mut self, world: &mut World) ensures (*final(world), *final(self)) == init_eff::<Self>(*old(world), *old(self));
}
impl<I: SystemInput, O> System for Sys<I, O> {
    type In = I; type Out = O;
    #[verifier::external_body]
    fn initialize(&mut self, world: &mut World) { unimplemented!() }
}
#[verifier::external_body] pub struct CleanupFn { _p: u8 }
impl CleanupFn {
    #[verifier::external_body]
    pub fn call(self, world: &mut World) ensures *final(world) == cleanup_eff(*old(world), self) { unimplemented!() }
}
// run_initialized_system(world, &mut dyn System, input, cleanup): signature written out over the stand-ins (`&mut dyn System` is outside
// the verifier's subset); uninterpreted effect
#[verifier::external_body]
pub fn run_initialized_system<I: SystemInput, O, S: System<In = I, Out = O>>(world: &mut World, system: &mut S, input: <I as SystemInput>::Inner<'_>, cleanup: CleanupFn) -> (r: O)
    ensures (*final(world), *final(system), r) == rinit_eff::<S, O>(*old(world), *old(system), enc(input), cleanup),
{ unimplemented!() }
// `system.borrow_mut()` on a Box (std BorrowMut): exclusive access to the boxed value.  std's impl is generic over ?Sized / allocators,
// which a Verus specification cannot mention; the call resolves to this stand-in trait instead (same name, same meaning).  ASSUMED.
pub trait BorrowMut<T> {
    spec fn boxed(&self) -> T;
    fn borrow_mut(&mut self) -> (r: &mut T) ensures *r == old(self).boxed(), final(self).boxed() == *final(r);
}
impl<T> BorrowMut<T> for Box<T> {
    open spec fn boxed(&self) -> T { **self }
    fn borrow_mut(&mut self) -> (r: &mut T) { &mut **self }
}
//@enum src/ecs/callbacks.rs CallbackSystem
pub uninterp spec fn default_of<T>() -> T;
// derive(Default) with `#[default] Empty`: the default value is Empty (ASSUMED: the derive's documented meaning)
pub broadcast axiom fn axiom_default_empty<I, O>() ensures #[trigger] default_of::<CallbackSystem<I, O>>() == CallbackSystem::<I, O>::Empty;
pub assume_specification<T: core::default::Default> [core::mem::take::<T>] (dest: &mut T) -> (r: T) ensures r == *old(dest), *final(dest) == default_of::<T>();

//@impl src/ecs/callbacks.rs impl CallbackSystem
//@fn src/ecs/callbacks.rs impl CallbackSystem initialize
//@| ensures match *old(self) { CallbackSystem::New(s) => ({ let i = init_eff::<Sys<I, O>>(*old(world), *s); *final(world) == i.0 && *final(self) == CallbackSystem::<I, O>::New(Box::new(i.1)) }),
//@|                            _ => *final(world) == *old(world) && *final(self) == *old(self) },
//@fn src/ecs/callbacks.rs impl CallbackSystem run_with_cleanup ret=r
//@| ensures match *old(self) {
//@|     CallbackSystem::Empty => r is None && *final(world) == cleanup_eff(*old(world), cleanup) && *final(self) == CallbackSystem::<I, O>::Empty,
//@|     CallbackSystem::New(s) => ({ let i = init_eff::<Sys<I, O>>(*old(world), *s); let out = rinit_eff::<Sys<I, O>, O>(i.0, i.1, enc(input), cleanup);
//@|         r == Some(out.2) && *final(world) == out.0 && *final(self) == CallbackSystem::<I, O>::Initialized(Box::new(out.1)) }),
//@|     CallbackSystem::Initialized(s) => ({ let out = rinit_eff::<Sys<I, O>, O>(*old(world), *s, enc(input), cleanup);
//@|         r == Some(out.2) && *final(world) == out.0 && *final(self) == CallbackSystem::<I, O>::Initialized(Box::new(out.1)) }),
//@| },
//@ghost | broadcast use axiom_default_empty;
//@sigsubst impl FnOnce(&mut World) + Send + Sync + 'static | CleanupFn
//@dropstmt (cleanup)(world) | cleanup.call(world);
//@fn src/ecs/callbacks.rs impl CallbackSystem take_initialized ret=r
//@| ensures match self { CallbackSystem::Empty => r is None && *final(world) == *old(world),
//@|     CallbackSystem::New(s) => ({ let i = init_eff::<Sys<I, O>>(*old(world), *s); r == Some(Box::new(i.1)) && *final(world) == i.0 }),
//@|     CallbackSystem::Initialized(s) => r == Some(s) && *final(world) == *old(world) },
//@fn src/ecs/callbacks.rs impl CallbackSystem is_empty ret=b
//@| ensures b == (*self is Empty),
//@fn src/ecs/callbacks.rs impl CallbackSystem is_new ret=b
//@| ensures b == (*self is New),
//@fn src/ecs/callbacks.rs impl CallbackSystem has_system ret=b
//@| ensures b == !(*self is Empty),
//@endimpl

// ---- RawCallbackSystem<I, O, S>: the same cycle for an unboxed system; an Empty slot must not be run (it panics: precondition) ----
//@enum src/ecs/callbacks.rs RawCallbackSystem rrt:I,O
pub broadcast axiom fn axiom_default_empty_raw<I, O, S: System<In = I, Out = O>>() ensures #[trigger] default_of::<RawCallbackSystem<I, O, S>>() == RawCallbackSystem::<I, O, S>::Empty;
//@impl src/ecs/callbacks.rs impl RawCallbackSystem
//@fn src/ecs/callbacks.rs impl RawCallbackSystem new ret=r
//@| ensures r == RawCallbackSystem::<I, O, S>::New(new_raw::<S, IS>(system)),
//@fn src/ecs/callbacks.rs impl RawCallbackSystem initialize
//@| ensures match *old(self) { RawCallbackSystem::New(s) => ({ let i = init_eff::<S>(*old(world), s); *final(world) == i.0 && *final(self) == RawCallbackSystem::<I, O, S>::New(i.1) }),
//@|                            _ => *final(world) == *old(world) && *final(self) == *old(self) },
//@fn src/ecs/callbacks.rs impl RawCallbackSystem run_with_cleanup ret=r
//@| requires !(*old(self) is Empty),
//@| ensures match *old(self) {
//@|     RawCallbackSystem::Empty => false,
//@|     RawCallbackSystem::New(s) => ({ let i = init_eff::<S>(*old(world), s); let out = rinit_eff::<S, O>(i.0, i.1, enc(input), cleanup);
//@|         r == out.2 && *final(world) == out.0 && *final(self) == RawCallbackSystem::<I, O, S>::Initialized(out.1) }),
//@|     RawCallbackSystem::Initialized(s) => ({ let out = rinit_eff::<S, O>(*old(world), s, enc(input), cleanup);
//@|         r == out.2 && *final(world) == out.0 && *final(self) == RawCallbackSystem::<I, O, S>::Initialized(out.1) }),
//@| },
//@ghost | broadcast use axiom_default_empty_raw;
//@sigsubst impl FnOnce(&mut World) + Send + Sync + 'static | CleanupFn
//@fn src/ecs/callbacks.rs impl RawCallbackSystem is_new ret=b
//@| ensures b == (*self is New),
//@fn src/ecs/callbacks.rs impl RawCallbackSystem is_initialized ret=b
//@| ensures b == (*self is Initialized),
//@endimpl

} // verus!
fn main() {}
