// Unit `commands` (C03, C04, C05): the setup/cleanup functions that commands.rs attaches to each command kind, verbatim,
// against the ASSUMED World contract of world_prelude.inc.  The trackers' `start` is assumed here (its contract is
// discharged on the real function by Kani unit K.tracker.*); `end`, `decrement`, `is_done` are verified verbatim.
use vstd::prelude::*;
verus! {
//@include prelude.inc
//@enum src/react/utils.rs EntityReactionType
//@enum src/react/utils.rs ReactorHandle
//@struct src/react/commands.rs DataEntityCounter
//@impl src/react/commands.rs impl DataEntityCounter
//@fn src/react/commands.rs impl DataEntityCounter decrement
//@| ensures final(self).count == (if old(self).count == 0 { 0usize } else { (old(self).count - 1) as usize }),
//@fn src/react/commands.rs impl DataEntityCounter is_done ret=b
//@| ensures b == (self.count == 0),
//@endimpl

pub open spec fn first_idx<M>(s: Seq<(SystemCommand, M)>, r: SystemCommand) -> int decreases s.len()
{ if s.len() == 0 { -1 } else if s[0].0 == r { 0 } else { let t = first_idx(s.subrange(1, s.len() as int), r); if t < 0 { -1 } else { t + 1 } } }
pub open spec fn first_idx3<A, B>(s: Seq<(SystemCommand, A, B)>, r: SystemCommand) -> int decreases s.len()
{ if s.len() == 0 { -1 } else if s[0].0 == r { 0 } else { let t = first_idx3(s.subrange(1, s.len() as int), r); if t < 0 { -1 } else { t + 1 } } }

//@struct src/react/system_event_reader.rs SystemEventAccessTracker
//@impl src/react/system_event_reader.rs impl SystemEventAccessTracker
//@extern src/react/system_event_reader.rs impl SystemEventAccessTracker start
//@| ensures ({ let i = first_idx(old(self).prepared@, reactor);
//@|     if i < 0 { *final(self) == *old(self) }
//@|     else { final(self).prepared@ == old(self).prepared@.remove(i) && final(self).currently_reacting && final(self).data_entity == old(self).prepared@[i].1 } }),
//@fn src/react/system_event_reader.rs impl SystemEventAccessTracker end ret=r
//@| ensures !final(self).currently_reacting, r == old(self).data_entity, final(self).data_entity == old(self).data_entity, final(self).prepared@ == old(self).prepared@,
//@endimpl
//@struct src/react/event_readers.rs EventAccessTracker
//@impl src/react/event_readers.rs impl EventAccessTracker
//@extern src/react/event_readers.rs impl EventAccessTracker start
//@| ensures ({ let i = first_idx(old(self).prepared@, reactor);
//@|     if i < 0 { *final(self) == *old(self) }
//@|     else { final(self).prepared@ == old(self).prepared@.remove(i) && final(self).currently_reacting && final(self).data_entity == old(self).prepared@[i].1 } }),
//@fn src/react/event_readers.rs impl EventAccessTracker end ret=r
//@| ensures !final(self).currently_reacting, r == old(self).data_entity, final(self).data_entity == old(self).data_entity, final(self).prepared@ == old(self).prepared@,
//@endimpl
//@struct src/react/entity_reaction_readers.rs EntityReactionAccessTracker
//@impl src/react/entity_reaction_readers.rs impl EntityReactionAccessTracker
//@extern src/react/entity_reaction_readers.rs impl EntityReactionAccessTracker start
//@| ensures ({ let i = first_idx3(old(self).prepared@, reactor);
//@|     if i < 0 { *final(self) == *old(self) }
//@|     else { final(self).prepared@ == old(self).prepared@.remove(i) && final(self).currently_reacting && final(self).system == reactor
//@|            && final(self).reaction_source == old(self).prepared@[i].1 && final(self).reaction_type == old(self).prepared@[i].2 } }),
//@fn src/react/entity_reaction_readers.rs impl EntityReactionAccessTracker end
//@| ensures !final(self).currently_reacting, final(self).prepared@ == old(self).prepared@, final(self).system == old(self).system,
//@|         final(self).reaction_source == old(self).reaction_source, final(self).reaction_type == old(self).reaction_type,
//@endimpl
//@struct src/react/despawn_reader.rs DespawnAccessTracker
//@impl src/react/despawn_reader.rs impl DespawnAccessTracker
//@extern src/react/despawn_reader.rs impl DespawnAccessTracker start
//@| ensures ({ let i = first_idx3(old(self).prepared@, reactor);
//@|     if i < 0 { *final(self) == *old(self) }
//@|     else { final(self).prepared@ == old(self).prepared@.remove(i) && final(self).currently_reacting
//@|            && final(self).reaction_source == old(self).prepared@[i].1 && final(self).reactor_handle == Some(old(self).prepared@[i].2) } }),
//@fn src/react/despawn_reader.rs impl DespawnAccessTracker end
//@| ensures !final(self).currently_reacting, final(self).reactor_handle is None, final(self).prepared@ == old(self).prepared@, final(self).reaction_source == old(self).reaction_source,
//@endimpl
//@include world_prelude.inc

// ---- what one cleanup of an event payload does to the ECS part of the world (C05) ----
pub open spec fn cleanup_spec(a: &World, b: &World, e: Entity) -> bool {
    if a.alive().contains(e) && a.counters().dom().contains(e) {
        if a.counters()[e].count <= 1 { b.alive() =~= a.alive().remove(e) && b.counters() =~= a.counters().remove(e) }
        else { b.alive() == a.alive() && b.counters() =~= a.counters().insert(e, DataEntityCounter { count: (a.counters()[e].count - 1) as usize }) }
    } else { ecs_same(a, b) }
}

//@fn src/react/commands.rs - try_cleanup_data_entity
//@| ensures cleanup_spec(old(world), final(world), entity), resources_same(old(world), final(world)),

//@fn src/react/commands.rs - start_system_event
//@| ensures SystemEventAccessTracker::frame(old(world), final(world)),
//@|     ({ let t = old(world).sysevent(); let u = final(world).sysevent(); let i = first_idx(t.prepared@, system);
//@|        if i < 0 { u == t } else { u.prepared@ == t.prepared@.remove(i) && u.currently_reacting && u.data_entity == t.prepared@[i].1 } }),
//@fn src/react/commands.rs - end_system_event
//@| ensures !final(world).sysevent().currently_reacting, final(world).sysevent().prepared@ == old(world).sysevent().prepared@,
//@|         final(world).event() == old(world).event(), final(world).entity_reaction() == old(world).entity_reaction(), final(world).despawn_tracker() == old(world).despawn_tracker(),
//@|         final(world).alive() == old(world).alive().remove(old(world).sysevent().data_entity),

//@fn src/react/commands.rs - start_entity_reaction
//@| ensures EntityReactionAccessTracker::frame(old(world), final(world)),
//@|     ({ let t = old(world).entity_reaction(); let u = final(world).entity_reaction(); let i = first_idx3(t.prepared@, reactor);
//@|        if i < 0 { u == t } else { u.prepared@ == t.prepared@.remove(i) && u.currently_reacting && u.system == reactor && u.reaction_source == t.prepared@[i].1 && u.reaction_type == t.prepared@[i].2 } }),
//@fn src/react/commands.rs - end_entity_reaction
//@| ensures EntityReactionAccessTracker::frame(old(world), final(world)), !final(world).entity_reaction().currently_reacting,
//@|         final(world).entity_reaction().prepared@ == old(world).entity_reaction().prepared@,

//@fn src/react/commands.rs - start_despawn_reaction
//@| ensures DespawnAccessTracker::frame(old(world), final(world)),
//@|     ({ let t = old(world).despawn_tracker(); let u = final(world).despawn_tracker(); let i = first_idx3(t.prepared@, reactor);
//@|        if i < 0 { u == t } else { u.prepared@ == t.prepared@.remove(i) && u.currently_reacting && u.reaction_source == t.prepared@[i].1 && u.reactor_handle == Some(t.prepared@[i].2) } }),
//@fn src/react/commands.rs - end_despawn_reaction
//@| ensures DespawnAccessTracker::frame(old(world), final(world)), !final(world).despawn_tracker().currently_reacting,
//@|         final(world).despawn_tracker().reactor_handle is None, final(world).despawn_tracker().prepared@ == old(world).despawn_tracker().prepared@,

//@fn src/react/commands.rs - start_entity_event
//@| ensures final(world).sysevent() == old(world).sysevent(), final(world).despawn_tracker() == old(world).despawn_tracker(), ecs_same(old(world), final(world)),
//@|     ({ let t = old(world).entity_reaction(); let u = final(world).entity_reaction(); let i = first_idx3(t.prepared@, reactor);
//@|        if i < 0 { u == t } else { u.prepared@ == t.prepared@.remove(i) && u.currently_reacting && u.system == reactor && u.reaction_source == t.prepared@[i].1 && u.reaction_type == t.prepared@[i].2 } }),
//@|     ({ let t = old(world).event(); let u = final(world).event(); let i = first_idx(t.prepared@, reactor);
//@|        if i < 0 { u == t } else { u.prepared@ == t.prepared@.remove(i) && u.currently_reacting && u.data_entity == t.prepared@[i].1 } }),
//@fn src/react/commands.rs - end_entity_event
//@| ensures final(world).sysevent() == old(world).sysevent(), final(world).despawn_tracker() == old(world).despawn_tracker(),
//@|         !final(world).entity_reaction().currently_reacting, !final(world).event().currently_reacting,
//@|         final(world).event().prepared@ == old(world).event().prepared@, final(world).entity_reaction().prepared@ == old(world).entity_reaction().prepared@,
//@|         cleanup_spec(old(world), final(world), old(world).event().data_entity),

//@fn src/react/commands.rs - start_broadcast_event
//@| ensures EventAccessTracker::frame(old(world), final(world)),
//@|     ({ let t = old(world).event(); let u = final(world).event(); let i = first_idx(t.prepared@, reactor);
//@|        if i < 0 { u == t } else { u.prepared@ == t.prepared@.remove(i) && u.currently_reacting && u.data_entity == t.prepared@[i].1 } }),
//@fn src/react/commands.rs - end_broadcast_event
//@| ensures final(world).sysevent() == old(world).sysevent(), final(world).despawn_tracker() == old(world).despawn_tracker(), final(world).entity_reaction() == old(world).entity_reaction(),
//@|         !final(world).event().currently_reacting, final(world).event().prepared@ == old(world).event().prepared@,
//@|         cleanup_spec(old(world), final(world), old(world).event().data_entity),

} // verus!
fn main() {}
