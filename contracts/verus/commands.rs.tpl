// Unit `commands` (C03, C04, C05): the setup/cleanup functions that commands.rs attaches to each command kind, verbatim,
// against the ASSUMED World contract of world_prelude.inc.  The trackers' `start` is assumed here (its contract - the same clause text - is
// PROVED on the verbatim body in unit `trackers`, and restated on the compiled code by Kani unit K.tracker.*); `end`, `decrement`, `is_done` are verified verbatim.
use vstd::prelude::*;
verus! {
//@include prelude.inc
//@enum src/react/utils.rs EntityReactionType
//@enum src/react/utils.rs ReactorHandle
//@struct src/react/commands.rs DataEntityCounter
//@impl src/react/commands.rs impl DataEntityCounter
//@fn src/react/commands.rs impl DataEntityCounter decrement
//@| ensures final(self).count == (if old(self).count == 0 { 0usize } else { (old(self).count - 1) as usize }),
//@fn src/react/commands.rs impl DataEntityCounter is_done ret=b
//@| ensures b == (self.count == 0),
//@endimpl

pub open spec fn first_idx<M>(s: Seq<(SystemCommand, M)>, r: SystemCommand) -> int decreases s.len()
{ if s.len() == 0 { -1 } else if s[0].0 == r { 0 } else { let t = first_idx(s.subrange(1, s.len() as int), r); if t < 0 { -1 } else { t + 1 } } }
pub open spec fn first_idx3<A, B>(s: Seq<(SystemCommand, A, B)>, r: SystemCommand) -> int decreases s.len()
{ if s.len() == 0 { -1 } else if s[0].0 == r { 0 } else { let t = first_idx3(s.subrange(1, s.len() as int), r); if t < 0 { -1 } else { t + 1 } } }

//@struct src/react/system_event_reader.rs SystemEventAccessTracker
//@impl src/react/system_event_reader.rs impl SystemEventAccessTracker
//@extern src/react/system_event_reader.rs impl SystemEventAccessTracker start
//@| ensures ({ let i = first_idx(old(self).prepared@, reactor);
//@|     if i < 0 { *final(self) == *old(self) }
//@|     else { final(self).prepared@ == old(self).prepared@.remove(i) && final(self).currently_reacting && final(self).data_entity == old(self).prepared@[i].1 } }),
//@fn src/react/system_event_reader.rs impl SystemEventAccessTracker end ret=r
//@| ensures !final(self).currently_reacting, r == old(self).data_entity, final(self).data_entity == old(self).data_entity, final(self).prepared@ == old(self).prepared@,
//@endimpl
//@struct src/react/event_readers.rs EventAccessTracker
//@impl src/react/event_readers.rs impl EventAccessTracker
//@extern src/react/event_readers.rs impl EventAccessTracker start
//@| ensures ({ let i = first_idx(old(self).prepared@, reactor);
//@|     if i < 0 { *final(self) == *old(self) }
//@|     else { final(self).prepared@ == old(self).prepared@.remove(i) && final(self).currently_reacting && final(self).data_entity == old(self).prepared@[i].1 } }),
//@fn src/react/event_readers.rs impl EventAccessTracker end ret=r
//@| ensures !final(self).currently_reacting, r == old(self).data_entity, final(self).data_entity == old(self).data_entity, final(self).prepared@ == old(self).prepared@,
//@endimpl
//@struct src/react/entity_reaction_readers.rs EntityReactionAccessTracker
//@impl src/react/entity_reaction_readers.rs impl EntityReactionAccessTracker
//@extern src/react/entity_reaction_readers.rs impl EntityReactionAccessTracker start
//@| ensures ({ let i = first_idx3(old(self).prepared@, reactor);
//@|     if i < 0 { *final(self) == *old(self) }
//@|     else { final(self).prepared@ == old(self).prepared@.remove(i) && final(self).currently_reacting && final(self).system == reactor
//@|            && final(self).reaction_source == old(self).prepared@[i].1 && final(self).reaction_type == old(self).prepared@[i].2 } }),
//@fn src/react/entity_reaction_readers.rs impl EntityReactionAccessTracker end
//@| ensures !final(self).currently_reacting, final(self).prepared@ == old(self).prepared@, final(self).system == old(self).system,
//@|         final(self).reaction_source == old(self).reaction_source, final(self).reaction_type == old(self).reaction_type,
//@endimpl
//@struct src/react/despawn_reader.rs DespawnAccessTracker
//@impl src/react/despawn_reader.rs impl DespawnAccessTracker
//@extern src/react/despawn_reader.rs impl DespawnAccessTracker start
//@| ensures ({ let i = first_idx3(old(self).prepared@, reactor);
//@|     if i < 0 { *final(self) == *old(self) }
//@|     else { final(self).prepared@ == old(self).prepared@.remove(i) && final(self).currently_reacting
//@|            && final(self).reaction_source == old(self).prepared@[i].1 && final(self).reactor_handle == Some(old(self).prepared@[i].2) } }),
//@fn src/react/despawn_reader.rs impl DespawnAccessTracker end
//@| ensures !final(self).currently_reacting, final(self).reactor_handle is None, final(self).prepared@ == old(self).prepared@, final(self).reaction_source == old(self).reaction_source,
//@endimpl
//@include world_prelude.inc

// ---- what one cleanup of an event payload does to the ECS part of the world (C05) ----
pub open spec fn cleanup_spec(a: &World, b: &World, e: Entity) -> bool {
    if a.alive().contains(e) && a.counters().dom().contains(e) {
        if a.counters()[e].count <= 1 { b.alive() =~= a.alive().remove(e) && b.counters() =~= a.counters().remove(e) }
        else { b.alive() == a.alive() && b.counters() =~= a.counters().insert(e, DataEntityCounter { count: (a.counters()[e].count - 1) as usize }) }
    } else { ecs_same(a, b) }
}

//@fn src/react/commands.rs - try_cleanup_data_entity
//@| ensures cleanup_spec(old(world), final(world), entity), resources_same(old(world), final(world)),

//@fn src/react/commands.rs - start_system_event
//@| ensures SystemEventAccessTracker::frame(old(world), final(world)),
//@|     ({ let t = old(world).sysevent(); let u = final(world).sysevent(); let i = first_idx(t.prepared@, system);
//@|        if i < 0 { u == t } else { u.prepared@ == t.prepared@.remove(i) && u.currently_reacting && u.data_entity == t.prepared@[i].1 } }),
//@fn src/react/commands.rs - end_system_event
//@| ensures !final(world).sysevent().currently_reacting, final(world).sysevent().prepared@ == old(world).sysevent().prepared@,
//@|         final(world).event() == old(world).event(), final(world).entity_reaction() == old(world).entity_reaction(), final(world).despawn_tracker() == old(world).despawn_tracker(),
//@|         final(world).alive() == old(world).alive().remove(old(world).sysevent().data_entity),

//@fn src/react/commands.rs - start_entity_reaction
//@| ensures EntityReactionAccessTracker::frame(old(world), final(world)),
//@|     ({ let t = old(world).entity_reaction(); let u = final(world).entity_reaction(); let i = first_idx3(t.prepared@, reactor);
//@|        if i < 0 { u == t } else { u.prepared@ == t.prepared@.remove(i) && u.currently_reacting && u.system == reactor && u.reaction_source == t.prepared@[i].1 && u.reaction_type == t.prepared@[i].2 } }),
//@fn src/react/commands.rs - end_entity_reaction
//@| ensures EntityReactionAccessTracker::frame(old(world), final(world)), !final(world).entity_reaction().currently_reacting,
//@|         final(world).entity_reaction().prepared@ == old(world).entity_reaction().prepared@,

//@fn src/react/commands.rs - start_despawn_reaction
//@| ensures DespawnAccessTracker::frame(old(world), final(world)),
//@|     ({ let t = old(world).despawn_tracker(); let u = final(world).despawn_tracker(); let i = first_idx3(t.prepared@, reactor);
//@|        if i < 0 { u == t } else { u.prepared@ == t.prepared@.remove(i) && u.currently_reacting && u.reaction_source == t.prepared@[i].1 && u.reactor_handle == Some(t.prepared@[i].2) } }),
//@fn src/react/commands.rs - end_despawn_reaction
//@| ensures DespawnAccessTracker::frame(old(world), final(world)), !final(world).despawn_tracker().currently_reacting,
//@|         final(world).despawn_tracker().reactor_handle is None, final(world).despawn_tracker().prepared@ == old(world).despawn_tracker().prepared@,

//@fn src/react/commands.rs - start_entity_event
//@| ensures final(world).sysevent() == old(world).sysevent(), final(world).despawn_tracker() == old(world).despawn_tracker(), ecs_same(old(world), final(world)),
//@|     ({ let t = old(world).entity_reaction(); let u = final(world).entity_reaction(); let i = first_idx3(t.prepared@, reactor);
//@|        if i < 0 { u == t } else { u.prepared@ == t.prepared@.remove(i) && u.currently_reacting && u.system == reactor && u.reaction_source == t.prepared@[i].1 && u.reaction_type == t.prepared@[i].2 } }),
//@|     ({ let t = old(world).event(); let u = final(world).event(); let i = first_idx(t.prepared@, reactor);
//@|        if i < 0 { u == t } else { u.prepared@ == t.prepared@.remove(i) && u.currently_reacting && u.data_entity == t.prepared@[i].1 } }),
//@fn src/react/commands.rs - end_entity_event
//@| ensures final(world).sysevent() == old(world).sysevent(), final(world).despawn_tracker() == old(world).despawn_tracker(),
//@|         !final(world).entity_reaction().currently_reacting, !final(world).event().currently_reacting,
//@|         final(world).event().prepared@ == old(world).event().prepared@, final(world).entity_reaction().prepared@ == old(world).entity_reaction().prepared@,
//@|         cleanup_spec(old(world), final(world), old(world).event().data_entity),

//@fn src/react/commands.rs - start_broadcast_event
//@| ensures EventAccessTracker::frame(old(world), final(world)),
//@|     ({ let t = old(world).event(); let u = final(world).event(); let i = first_idx(t.prepared@, reactor);
//@|        if i < 0 { u == t } else { u.prepared@ == t.prepared@.remove(i) && u.currently_reacting && u.data_entity == t.prepared@[i].1 } }),
//@fn src/react/commands.rs - end_broadcast_event
//@| ensures final(world).sysevent() == old(world).sysevent(), final(world).despawn_tracker() == old(world).despawn_tracker(), final(world).entity_reaction() == old(world).entity_reaction(),
//@|         !final(world).event().currently_reacting, final(world).event().prepared@ == old(world).event().prepared@,
//@|         cleanup_spec(old(world), final(world), old(world).event().data_entity),

// =================================================================================================================
// The Command impls: which trackers a command prepares and which (setup, cleanup) pair it hands to the runner (C03, C04).
// Contract: a command of kind X parks its metadata in exactly the tracker(s) of kind X - for ITS reactor - and then calls
// the runner for that reactor with setup = start_X and cleanup = end_X of the SAME kind (a mismatch would start or end the
// wrong tracker).  The runner itself is an ASSUMED total function of the world (uninterpreted; C02 is not applicable).
// =================================================================================================================
pub uninterp spec fn sys_id<S>(s: S) -> int;
pub uninterp spec fn noop_setup() -> int;
#[verifier::external_body] pub struct SystemCommandSetup { _p: u8 }
#[verifier::external_body] pub struct SystemCommandCleanup { _p: u8 }
impl SystemCommandSetup {
    pub uninterp spec fn reactor(&self) -> SystemCommand;
    pub uninterp spec fn f(&self) -> int;
    #[verifier::external_body] pub fn new<F>(reactor: SystemCommand, setup: F) -> (r: Self) ensures r.reactor() == reactor, r.f() == sys_id(setup) { unimplemented!() }
}
impl Default for SystemCommandSetup { #[verifier::external_body] fn default() -> (r: Self) ensures r.f() == noop_setup() { unimplemented!() } }
impl SystemCommandCleanup {
    pub uninterp spec fn f(&self) -> Option<int>;
    #[verifier::external_body] pub fn new<F>(cleanup: F) -> (r: Self) ensures r.f() == Some(sys_id(cleanup)) { unimplemented!() }
}
impl Default for SystemCommandCleanup { #[verifier::external_body] fn default() -> (r: Self) ensures r.f() is None { unimplemented!() } }
pub uninterp spec fn run_eff(w: World, command: SystemCommand, setup: SystemCommandSetup, cleanup: SystemCommandCleanup) -> World;
//@extern src/react/syscommand_runner.rs - syscommand_runner
//@| ensures *final(world) == run_eff(*old(world), command, setup, cleanup),
impl TypeId { #[verifier::external_body] pub fn of<T: ?Sized>() -> (t: TypeId) { unimplemented!() } }
//@impl src/react/system_event_reader.rs impl SystemEventAccessTracker
//@fn src/react/system_event_reader.rs impl SystemEventAccessTracker prepare
//@| ensures final(self).prepared@ == old(self).prepared@.push((system, data_entity)), final(self).currently_reacting == old(self).currently_reacting, final(self).data_entity == old(self).data_entity,
//@endimpl
//@impl src/react/event_readers.rs impl EventAccessTracker
//@fn src/react/event_readers.rs impl EventAccessTracker prepare
//@| ensures final(self).prepared@ == old(self).prepared@.push((system, data_entity)), final(self).currently_reacting == old(self).currently_reacting, final(self).data_entity == old(self).data_entity,
//@endimpl
//@impl src/react/entity_reaction_readers.rs impl EntityReactionAccessTracker
//@fn src/react/entity_reaction_readers.rs impl EntityReactionAccessTracker prepare
//@| ensures final(self).prepared@ == old(self).prepared@.push((system, source, reaction)), final(self).currently_reacting == old(self).currently_reacting,
//@|         final(self).system == old(self).system, final(self).reaction_source == old(self).reaction_source, final(self).reaction_type == old(self).reaction_type,
//@endimpl
//@impl src/react/despawn_reader.rs impl DespawnAccessTracker
//@fn src/react/despawn_reader.rs impl DespawnAccessTracker prepare
//@| ensures final(self).prepared@ == old(self).prepared@.push((reactor, source, handle)), final(self).currently_reacting == old(self).currently_reacting,
//@|         final(self).reaction_source == old(self).reaction_source, final(self).reactor_handle == old(self).reactor_handle,
//@endimpl

/// the runner was called on world `w1` for `reactor` with the setup/cleanup pair (start, end) of one kind
pub open spec fn ran<S, E>(w1: World, out: World, reactor: SystemCommand, start: S, end: E) -> bool {
    exists|su: SystemCommandSetup, cl: SystemCommandCleanup| su.reactor() == reactor && su.f() == sys_id(start) && cl.f() == Some(sys_id(end)) && out == #[trigger] run_eff(w1, reactor, su, cl)
}
pub open spec fn ran_plain(w1: World, out: World, reactor: SystemCommand) -> bool {
    exists|su: SystemCommandSetup, cl: SystemCommandCleanup| su.f() == noop_setup() && cl.f() is None && out == #[trigger] run_eff(w1, reactor, su, cl)
}
pub open spec fn trackers_same_but_sysevent(a: &World, b: &World) -> bool { SystemEventAccessTracker::frame(a, b) }

//@enum src/react/commands.rs ReactionCommand
//@struct src/react/commands.rs EventCommand
impl SystemCommand {
//@fn src/react/commands.rs impl Command for SystemCommand apply
//@| ensures ran_plain(*old(world), *final(world), self),
}
impl EventCommand {
//@fn src/react/commands.rs impl Command for EventCommand apply
//@| ensures exists|w1: World| #![trigger w1.sysevent()] SystemEventAccessTracker::frame(old(world), &w1)
//@|     && w1.sysevent().prepared@ == old(world).sysevent().prepared@.push((self.system, self.data_entity)) && w1.sysevent().currently_reacting == old(world).sysevent().currently_reacting
//@|     && ran(w1, *final(world), self.system, start_system_event, end_system_event),
}
impl ReactionCommand {
//@fn src/react/commands.rs impl Command for ReactionCommand apply
//@| ensures match self {
//@|     ReactionCommand::Resource { reactor } => ran_plain(*old(world), *final(world), reactor),
//@|     ReactionCommand::EntityReaction { reaction_source, reaction_type, reactor } => exists|w1: World| #![trigger w1.entity_reaction()] EntityReactionAccessTracker::frame(old(world), &w1)
//@|         && w1.entity_reaction().prepared@ == old(world).entity_reaction().prepared@.push((reactor, reaction_source, reaction_type))
//@|         && ran(w1, *final(world), reactor, start_entity_reaction, end_entity_reaction),
//@|     ReactionCommand::Despawn { reaction_source, reactor, handle } => exists|w1: World| #![trigger w1.despawn_tracker()] DespawnAccessTracker::frame(old(world), &w1)
//@|         && w1.despawn_tracker().prepared@ == old(world).despawn_tracker().prepared@.push((reactor, reaction_source, handle))
//@|         && ran(w1, *final(world), reactor, start_despawn_reaction, end_despawn_reaction),
//@|     ReactionCommand::EntityEvent { target, data_entity, reactor } => exists|w1: World| #![trigger w1.event()] w1.sysevent() == old(world).sysevent() && w1.despawn_tracker() == old(world).despawn_tracker() && ecs_same(old(world), &w1)
//@|         && w1.event().prepared@ == old(world).event().prepared@.push((reactor, data_entity))
//@|         && w1.entity_reaction().prepared@.len() == old(world).entity_reaction().prepared@.len() + 1 && w1.entity_reaction().prepared@.last().0 == reactor && w1.entity_reaction().prepared@.last().1 == target
//@|         && w1.entity_reaction().prepared@.drop_last() == old(world).entity_reaction().prepared@
//@|         && ran(w1, *final(world), reactor, start_entity_event, end_entity_event),
//@|     ReactionCommand::BroadcastEvent { data_entity, reactor } => exists|w1: World| #![trigger w1.event()] EventAccessTracker::frame(old(world), &w1)
//@|         && w1.event().prepared@ == old(world).event().prepared@.push((reactor, data_entity))
//@|         && ran(w1, *final(world), reactor, start_broadcast_event, end_broadcast_event),
//@| },
}

} // verus!
fn main() {}
