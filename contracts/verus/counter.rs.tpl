// Unit `counter` (C05): DataEntityCounter in src/react/commands.rs - the reader count of an event payload entity.
use vstd::prelude::*;
verus! {
//@struct src/react/commands.rs DataEntityCounter
//@impl src/react/commands.rs impl DataEntityCounter
//@fn src/react/commands.rs impl DataEntityCounter new ret=r
//@| ensures r.count == count,
//@fn src/react/commands.rs impl DataEntityCounter decrement
//@| ensures final(self).count == (if old(self).count == 0 { 0usize } else { (old(self).count - 1) as usize }),
//@fn src/react/commands.rs impl DataEntityCounter is_done ret=b
//@| ensures b == (self.count == 0),
//@endimpl

// ---- property layer L2 (C05): released exactly at the n-th of n decrements, never earlier; extra ones harmless ----
pub open spec fn dec(c: nat) -> nat { if c == 0 { 0 } else { (c - 1) as nat } }
pub open spec fn dec_n(c: nat, k: nat) -> nat decreases k { if k == 0 { c } else { dec_n(dec(c), (k - 1) as nat) } }

pub proof fn lemma_dec_n(c: nat, k: nat)
    ensures dec_n(c, k) == (if k >= c { 0 } else { (c - k) as nat })
    decreases k
{
    if k > 0 { lemma_dec_n(dec(c), (k - 1) as nat); }
}

/// A counter created for n >= 1 readers is done after exactly n decrements and not before; more are harmless.
pub proof fn lemma_released_exactly_after_last_reader(n: nat, k: nat)
    requires n >= 1
    ensures (dec_n(n, k) == 0) <==> k >= n
{
    lemma_dec_n(n, k);
}

/// Exec-level restatement tying the lemma to the real methods: n decrements from new(n) reach is_done(), n-1 do not.
pub fn check_exact(n: usize)
    requires n >= 1
{
    let mut c = DataEntityCounter::new(n);
    let mut i: usize = 0;
    while i < n
        invariant i <= n, c.count == n - i, n >= 1,
        decreases n - i,
    {
        assert(c.count != 0);
        let d = c.is_done();
        assert(!d);           // never released while a scheduled reader has yet to run
        c.decrement();
        i = i + 1;
    }
    let d = c.is_done();
    assert(d);                // released right after the last reader
    c.decrement();
    let d2 = c.is_done();
    assert(d2);               // an extra decrement (skipped reader counted twice) cannot underflow
}
} // verus!
fn main() {}
