// Unit `despawn_dispatch` (C01, C07; function-level facts behind C08): ReactCache::schedule_despawn_reactions (react_cache.rs),
// verbatim, for ANY number of reported despawns and lists of ANY length.
// Contract: the despawn reports are consumed front to back until the channel is empty; for each reported entity its despawn
// list is REMOVED from the table (so a second report of the same entity finds nothing: each registration fires at most once) and
// exactly one ReactionCommand::Despawn per registered handle is queued, in list order, naming the despawned entity and the
// handle's reactor, with THE HANDLE MOVED INTO THE COMMAND (the reactor stays alive until its despawn reaction has run: C07);
// a report for an entity without list queues nothing and does not stop the walk; lists of other entities are untouched.
// ASSUMED: `Vec` = the sequence stand-in of vec_prelude.inc (`drain(..)`), HashMap = finite partial map; the channel receiver is
// given exclusive (`&mut`) access in place of crossbeam's interior mutability (as in unit `gc`); World::commands() = handle to
// the world's command queue.  Termination is verified (each iteration consumes one report; nothing here produces reports).
use vstd::prelude::*;
verus! {
//@include prelude.inc
//@enum src/react/utils.rs EntityReactionType
//@enum src/react/utils.rs ReactorHandle
//@impl src/react/utils.rs impl ReactorHandle
//@fn src/react/utils.rs impl ReactorHandle sys_command ret=r
//@| ensures r == self.sys(),
//@endimpl
impl ReactorHandle {
    pub open spec fn sys(&self) -> SystemCommand { match *self { ReactorHandle::Persistent(s) => s, ReactorHandle::AutoDespawn(sig) => SystemCommand(sig.spec_entity()) } }
}
//@enum src/react/commands.rs ReactionCommand
//@include vec_prelude.inc
#[verifier::external_body]
#[verifier::reject_recursive_types(K)]
#[verifier::reject_recursive_types(V)]
pub struct HashMap<K, V> { _k: core::marker::PhantomData<(K, V)> }
impl<K, V> HashMap<K, V> {
    pub uninterp spec fn view(&self) -> Map<K, V>;
    // HashMap::remove(&k): the value stored for k, which is no longer in the map; None and no change if there is none
    #[verifier::external_body]
    pub fn remove(&mut self, k: &K) -> (r: Option<V>)
        ensures old(self).view().dom().contains(*k) ==> (r == Some(old(self).view()[*k]) && final(self).view() == old(self).view().remove(*k)),
                !old(self).view().dom().contains(*k) ==> (r is None && final(self).view() == old(self).view()),
    { unimplemented!() }
}
pub struct TryRecvError;
#[verifier::external_body] #[verifier::reject_recursive_types(T)] pub struct Receiver<T> { _k: core::marker::PhantomData<T> }
impl<T> Receiver<T> {
    pub uninterp spec fn pending(&self) -> Seq<T>;
    // crossbeam Receiver::try_recv: the oldest pending message, Err iff none.  `&mut self` instead of `&self`: see the header.
    #[verifier::external_body]
    pub fn try_recv(&mut self) -> (r: Result<T, TryRecvError>)
        ensures old(self).pending().len() == 0 ==> (r is Err && final(self).pending() == old(self).pending()),
                old(self).pending().len() > 0 ==> (r is Ok && r->Ok_0 == old(self).pending()[0] && final(self).pending() == old(self).pending().skip(1)),
    { unimplemented!() }
}
#[verifier::external_body] pub struct CommandsInner { _p: u8 }
pub type Commands<'w, 's> = &'s mut CommandsInner;
impl CommandsInner {
    pub uninterp spec fn log(&self) -> Seq<ReactionCommand>;
    #[verifier::external_body]
    pub fn queue(&mut self, c: ReactionCommand) ensures final(self).log() == old(self).log().push(c) { unimplemented!() }
}
#[verifier::external_body] pub struct World { _p: u8 }
impl World {
    pub uninterp spec fn cmd_log(&self) -> Seq<ReactionCommand>;
    // World::commands(): a handle to the world's own command queue
    #[verifier::external_body]
    pub fn commands(&mut self) -> (r: Commands<'_, '_>) ensures r.log() == old(self).cmd_log(), final(self).cmd_log() == final(r).log() { unimplemented!() }
}
// the parts of ReactCache this function touches
pub struct ReactCache { pub despawn_receiver: Receiver<Entity>, pub despawn_reactors: HashMap<Entity, Vec<ReactorHandle>> }

// ---- specification ---------------------------------------------------------------------------------------------------------
pub open spec fn cmds_for(e: Entity, hs: Seq<ReactorHandle>) -> Seq<ReactionCommand> {
    hs.map_values(|h: ReactorHandle| ReactionCommand::Despawn { reaction_source: e, reactor: h.sys(), handle: h })
}
/// the commands owed for the reports `p` (front to back) against the table `tab`; a list is consumed by its first report
pub open spec fn all_cmds(p: Seq<Entity>, tab: Map<Entity, Vec<ReactorHandle>>) -> Seq<ReactionCommand>
    decreases p.len()
{
    if p.len() == 0 { Seq::empty() }
    else if tab.dom().contains(p[0]) { cmds_for(p[0], tab[p[0]]@) + all_cmds(p.skip(1), tab.remove(p[0])) }
    else { all_cmds(p.skip(1), tab) }
}
/// the table after the reports `p`
pub open spec fn tab_after(p: Seq<Entity>, tab: Map<Entity, Vec<ReactorHandle>>) -> Map<Entity, Vec<ReactorHandle>>
    decreases p.len()
{
    if p.len() == 0 { tab } else if tab.dom().contains(p[0]) { tab_after(p.skip(1), tab.remove(p[0])) } else { tab_after(p.skip(1), tab) }
}

impl ReactCache {
//@fn src/react/react_cache.rs impl ReactCache schedule_despawn_reactions
//@| ensures final(world).cmd_log() == old(world).cmd_log() + all_cmds(old(self).despawn_receiver.pending(), old(self).despawn_reactors.view()),
//@|         final(self).despawn_reactors.view() == tab_after(old(self).despawn_receiver.pending(), old(self).despawn_reactors.view()),
//@|         final(self).despawn_receiver.pending().len() == 0,
//@loop 1 | invariant world.cmd_log() + all_cmds(self.despawn_receiver.pending(), self.despawn_reactors.view()) == old(world).cmd_log() + all_cmds(old(self).despawn_receiver.pending(), old(self).despawn_reactors.view()),
//@loop 1 |     tab_after(self.despawn_receiver.pending(), self.despawn_reactors.view()) == tab_after(old(self).despawn_receiver.pending(), old(self).despawn_reactors.view()),
//@loop 1 | ensures self.despawn_receiver.pending().len() == 0,
//@loop 1 | decreases self.despawn_receiver.pending().len(),
//@before for handle in | let ghost verif_log0 = world.cmd_log(); let ghost verif_list = despawn_reactors@;
//@loopvar 2 it
//@loop 2 | invariant it.seq() =~= verif_list, world.cmd_log() == verif_log0 + cmds_for(despawned_entity, verif_list).subrange(0, it.index@ as int),
//@loopafter 2 | assert(cmds_for(despawned_entity, verif_list).subrange(0, verif_list.len() as int) =~= cmds_for(despawned_entity, verif_list));
//@loopafter 2 | assert((verif_log0 + cmds_for(despawned_entity, verif_list)) + all_cmds(self.despawn_receiver.pending(), self.despawn_reactors.view()) =~= verif_log0 + (cmds_for(despawned_entity, verif_list) + all_cmds(self.despawn_receiver.pending(), self.despawn_reactors.view())));
}

} // verus!
fn main() {}
