// Unit `despawn_reg` (C07, C18; function-level facts behind C08): the system `register_despawn_reactor`
// (reaction_triggers_impl.rs) - what DespawnTrigger::register queues.  Its body is ONE statement,
// `world.resource_scope(move |world, mut cache: Mut<ReactCache>| { BODY });` - a closure over `&mut World`, outside Verus'
// subset.  Extraction rule 16 lifts the closure into the named fn `register_despawn_scope` with BODY byte-for-byte and reads
// `resource_scope` the way Bevy documents it (take the resource out, call the closure once, put the resource back).
//
// Contract (closure and system):
//   R1 target entity gone when the command is applied  => NOTHING happens: the handle is not stored (so it is dropped, and a
//      ref-counted reactor whose only trigger this was gets collected), no component is touched (C18, C07 'registered with no
//      effective trigger');
//   R2 target alive => exactly this handle is appended to the entity's despawn list (via ReactCache::register_despawn_reactor,
//      proved in unit `cache`), every other list untouched; afterwards the entity carries a DespawnTracker;
//   R3 an EXISTING DespawnTracker is never replaced - stated as the PRECONDITION of the stand-in `insert::<DespawnTracker>`:
//      replacing it would run DespawnTracker::drop, i.e. report a despawn that did not happen (premature despawn reactions, C07/C08);
//   R4 a new tracker reports to THIS cache's despawn channel, for THIS entity;
//   R5 dropping a tracker sends its parent exactly once through its notifier (DespawnTracker::drop).
use vstd::prelude::*;
verus! {
//@include prelude.inc
//@enum src/react/utils.rs ReactorHandle noclone
pub struct In<T>(pub T);
pub type Mut<'a, T> = &'a mut T;
#[verifier::external_body] #[verifier::reject_recursive_types(T)] pub struct Sender<T> { _k: core::marker::PhantomData<T> }
pub struct SendError;
impl<T> Sender<T> {
    /// what has been sent through THIS handle (ghost log)
    pub uninterp spec fn sent(&self) -> Seq<T>;
    // crossbeam Sender::send on an unbounded channel: the message is enqueued.  `&mut self` instead of `&self` (interior mutability
    // has no contract language in Verus; the call `self.notifier.send(..)` type-checks against it unchanged).
    #[verifier::external_body]
    pub fn send(&mut self, t: T) -> (r: Result<(), SendError>) ensures final(self).sent() == old(self).sent().push(t) { unimplemented!() }
}
//@struct src/react/reaction_triggers_impl.rs DespawnTracker
// R5 (the report itself): dropping a tracker - Bevy drops it with the entity - sends THIS tracker's parent, once, through THIS
// tracker's notifier.  `Drop::drop` is placed in an inherent impl (Verus does not verify Drop impls as such); its text is the repo's.
impl DespawnTracker {
//@fn src/react/reaction_triggers_impl.rs impl Drop for DespawnTracker drop
//@| ensures final(self).notifier.sent() == old(self).notifier.sent().push(old(self).parent), final(self).parent == old(self).parent,
}
#[verifier::external_body] pub struct ReactCache { _p: u8 }
impl ReactCache {
    pub uninterp spec fn despawn_tab(&self) -> Map<Entity, Seq<ReactorHandle>>;
    pub uninterp spec fn others(&self) -> int;   // every other table of the cache, as one opaque value
    pub uninterp spec fn sender(&self) -> Sender<Entity>;
}
pub open spec fn tab_of(m: Map<Entity, Seq<ReactorHandle>>, e: Entity) -> Seq<ReactorHandle> { if m.dom().contains(e) { m[e] } else { Seq::empty() } }
//@impl src/react/react_cache.rs impl ReactCache
// ASSUMED here, PROVED on the verbatim body in unit `cache` (same clauses, over the cache's real fields)
//@extern src/react/react_cache.rs impl ReactCache register_despawn_reactor
//@| ensures tab_of(final(self).despawn_tab(), entity) == tab_of(old(self).despawn_tab(), entity).push(handle),
//@|         forall|e: Entity| e != entity ==> tab_of(final(self).despawn_tab(), e) == tab_of(old(self).despawn_tab(), e),
//@|         final(self).others() == old(self).others(), final(self).sender() == old(self).sender(),
// ASSUMED (body: `self.despawn_sender.clone()`; a clone of a channel sender feeds the same channel)
//@extern src/react/react_cache.rs impl ReactCache despawn_sender ret=r
//@| ensures r == self.sender(),
//@endimpl

// ---- ASSUMED World contract: liveness, DespawnTracker components, the ReactCache resource ---------------------------------
#[verifier::external_body] pub struct World { _p: u8 }
#[verifier::external_body] pub struct EntityView { _p: u8 }
pub type EntityWorldMut<'w> = &'w mut EntityView;
pub struct EntityFetchError;
pub trait Resource: Sized { spec fn get(w: &World) -> Self; }
impl Resource for ReactCache { open spec fn get(w: &World) -> Self { w.cache() } }
impl EntityView {
    pub uninterp spec fn id(&self) -> Entity;
    pub uninterp spec fn tracker(&self) -> Option<DespawnTracker>;
    // EntityWorldMut::contains::<DespawnTracker>()
    #[verifier::external_body]
    pub fn contains<C>(&self) -> (b: bool) ensures b == (self.tracker() is Some) { unimplemented!() }
    // EntityWorldMut::insert(DespawnTracker): R3 - never onto an entity that already has one (the old one would be dropped)
    #[verifier::external_body]
    pub fn insert(&mut self, t: DespawnTracker)
        requires old(self).tracker() is None,
        ensures final(self).tracker() == Some(t), final(self).id() == old(self).id(),
    { unimplemented!() }
}
impl World {
    pub uninterp spec fn alive(&self) -> Set<Entity>;
    pub uninterp spec fn trackers(&self) -> Map<Entity, DespawnTracker>;
    pub uninterp spec fn cache(&self) -> ReactCache;
    // the two halves of World::resource_scope (rule 16): the resource is taken out ...
    #[verifier::external_body]
    pub fn verif_scope_take<R: Resource>(&mut self) -> (r: R)
        ensures r == R::get(old(self)), final(self).alive() == old(self).alive(), final(self).trackers() == old(self).trackers(),
    { unimplemented!() }
    // ... and put back
    #[verifier::external_body]
    pub fn verif_scope_put<R: Resource>(&mut self, r: R)
        ensures R::get(final(self)) == r, final(self).alive() == old(self).alive(), final(self).trackers() == old(self).trackers(),
    { unimplemented!() }
    // World::get_entity_mut(e): a handle to e iff it is alive; through it only e's components can change
    #[verifier::external_body]
    pub fn get_entity_mut(&mut self, e: Entity) -> (r: Result<EntityWorldMut<'_>, EntityFetchError>)
        ensures r is Ok <==> old(self).alive().contains(e),
                r is Err ==> (final(self).alive() == old(self).alive() && final(self).trackers() == old(self).trackers()),
                r is Ok ==> ({ let v = *r->Ok_0; let fv = *final(r->Ok_0);
                    v.id() == e
                    && v.tracker() == (if old(self).trackers().dom().contains(e) { Some(old(self).trackers()[e]) } else { None::<DespawnTracker> })
                    && final(self).alive() == old(self).alive()
                    && final(self).trackers() == (match fv.tracker() { Some(t) => old(self).trackers().insert(e, t), None => old(self).trackers().remove(e) }) }),
    { unimplemented!() }
}
/// what one application of the registration does to (live set, trackers, cache)
pub open spec fn registered(alive0: Set<Entity>, tr0: Map<Entity, DespawnTracker>, c0: ReactCache, entity: Entity, handle: ReactorHandle,
                            alive1: Set<Entity>, tr1: Map<Entity, DespawnTracker>, c1: ReactCache) -> bool {
    &&& alive1 == alive0
    &&& c1.others() == c0.others() && c1.sender() == c0.sender()
    // R1
    &&& (!alive0.contains(entity) ==> (tr1 =~= tr0 && c1.despawn_tab() =~= c0.despawn_tab()))
    // R2, R3, R4
    &&& (alive0.contains(entity) ==> (
            tab_of(c1.despawn_tab(), entity) == tab_of(c0.despawn_tab(), entity).push(handle)
            && (forall|e: Entity| e != entity ==> tab_of(c1.despawn_tab(), e) == tab_of(c0.despawn_tab(), e))
            && (tr0.dom().contains(entity) ==> tr1 =~= tr0)
            && (!tr0.dom().contains(entity) ==> tr1 =~= tr0.insert(entity, DespawnTracker { parent: entity, notifier: c0.sender() }))))
}

//@fn src/react/reaction_triggers_impl.rs - register_despawn_reactor
//@| ensures ({ let (entity, handle) = verif_in.0; registered(old(world).alive(), old(world).trackers(), old(world).cache(), entity, handle, final(world).alive(), final(world).trackers(), final(world).cache()) }),
//@liftscope world.resource_scope | register_despawn_scope | entity: Entity, handle: ReactorHandle
//@lift| ensures registered(old(world).alive(), old(world).trackers(), *old(cache), entity, handle, final(world).alive(), final(world).trackers(), *final(cache)),

} // verus!
fn main() {}
