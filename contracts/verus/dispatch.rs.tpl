// Unit `dispatch` (C01, C14): schedule_insertion_reaction / schedule_mutation_reaction / schedule_entity_reaction_impl
// (react_cache.rs), verbatim, for per-entity lists and type-wide lists of ANY length.
// Contract (from the property): the queued commands are EXACTLY one EntityReaction per entity-scoped registration of
// (this entity, this kind, this component type) plus one per type-wide registration of (this kind, this component type),
// each naming the changed entity, the kind/type and the registered reactor; nothing for other kinds / types / entities;
// an insertion is reacted to only if the entity actually carries the component.
// ASSUMED: `Vec` = the sequence stand-in of vec_prelude.inc (iter / drain / push with std's documented semantics),
// HashMap = finite partial map, Query / Commands stand-ins; EntityReactors::iter_rtype yields the reactors of the entries of
// the given reaction type (discharged on the real SmallVec-based code by K.entity_reactors.queries.*).
use vstd::prelude::*;
verus! {
//@include prelude.inc
//@enum src/react/utils.rs EntityReactionType
//@enum src/react/utils.rs ReactorHandle
//@impl src/react/utils.rs impl ReactorHandle
//@fn src/react/utils.rs impl ReactorHandle sys_command ret=r
//@| ensures r == self.sys(),
//@endimpl
impl ReactorHandle {
    pub open spec fn sys(&self) -> SystemCommand { match *self { ReactorHandle::Persistent(s) => s, ReactorHandle::AutoDespawn(sig) => SystemCommand(sig.spec_entity()) } }
}
//@enum src/react/commands.rs ReactionCommand
//@include vec_prelude.inc
pub trait ReactComponent {}
pub uninterp spec fn type_id_spec<T: ?Sized>() -> TypeId;
impl TypeId { #[verifier::external_body] pub fn of<T: ?Sized>() -> (t: TypeId) ensures t == type_id_spec::<T>() { unimplemented!() } }
pub struct In<T>(pub T);
pub type ResMut<'a, T> = &'a mut T;
#[verifier::external_body]
#[verifier::reject_recursive_types(K)]
#[verifier::reject_recursive_types(V)]
pub struct HashMap<K, V> { _k: core::marker::PhantomData<(K, V)> }
impl<K, V> HashMap<K, V> {
    pub uninterp spec fn view(&self) -> Map<K, V>;
    #[verifier::external_body]
    pub fn get(&self, k: &K) -> (r: Option<&V>) ensures r == (if self.view().dom().contains(*k) { Some(&self.view()[*k]) } else { None::<&V> }) { unimplemented!() }
}
// ---- ASSUMED: the per-entity list and the queries ----------------------------------------------------------------------
#[verifier::external_body] pub struct EntityReactors { _p: u8 }
pub open spec fn rt_ids(v: Seq<(EntityReactionType, SystemCommand)>, rt: EntityReactionType) -> Seq<SystemCommand> {
    v.filter(|x: (EntityReactionType, SystemCommand)| x.0 == rt).map_values(|x: (EntityReactionType, SystemCommand)| x.1)
}
#[verifier::external_body] pub struct RtIter<'a> { _p: core::marker::PhantomData<&'a u8> }
impl<'a> RtIter<'a> { pub uninterp spec fn elems(&self) -> Seq<SystemCommand>; pub uninterp spec fn pos(&self) -> nat; }
impl<'a> Iterator for RtIter<'a> { type Item = SystemCommand; #[verifier::external_body] fn next(&mut self) -> (r: Option<SystemCommand>) { unimplemented!() } }
impl<'a> vstd::std_specs::iter::IteratorSpecImpl for RtIter<'a> {
    open spec fn obeys_prophetic_iter_laws(&self) -> bool { true }
    open spec fn remaining(&self) -> Seq<SystemCommand> { self.elems().subrange(self.pos() as int, self.elems().len() as int) }
    open spec fn will_return_none(&self) -> bool { true }
    open spec fn decrease(&self) -> Option<nat> { Some((self.elems().len() - self.pos()) as nat) }
    open spec fn peek(&self, index: int) -> Option<SystemCommand> { if 0 <= index < self.elems().len() - self.pos() { Some(self.elems()[self.pos() + index]) } else { None } }
}
impl EntityReactors {
    pub uninterp spec fn view(&self) -> Seq<(EntityReactionType, SystemCommand)>;
    #[verifier::external_body]
    pub fn iter_rtype(&self, rtype: EntityReactionType) -> (r: RtIter<'_>) ensures r.elems() == rt_ids(self.view(), rtype), r.pos() == 0 { unimplemented!() }
    #[verifier::external_body]
    pub fn count(&self, rtype: EntityReactionType) -> (n: usize) ensures n == rt_ids(self.view(), rtype).len() { unimplemented!() }
}
pub struct QueryEntityError;
pub struct With<T>(pub core::marker::PhantomData<T>);
#[verifier::external_body]
#[verifier::reject_recursive_types(D)]
#[verifier::reject_recursive_types(F)]
pub struct Query<'w, 's, D, F = ()> { _p: core::marker::PhantomData<(&'w (), &'s (), D, F)> }
impl<'w, 's, D, F> Query<'w, 's, D, F> {
    /// entities matched by the query that carry an EntityReactors (meaningful for D = &EntityReactors)
    pub uninterp spec fn lists(&self) -> Map<Entity, EntityReactors>;
    /// entities matched by the query (meaningful for filter queries)
    pub uninterp spec fn matched(&self) -> Set<Entity>;
    #[verifier::external_body]
    pub fn get(&self, e: Entity) -> (r: Result<&EntityReactors, QueryEntityError>)
        ensures r is Ok <==> self.lists().dom().contains(e), r is Ok ==> *r->Ok_0 == self.lists()[e] { unimplemented!() }
    #[verifier::external_body]
    pub fn contains(&self, e: Entity) -> (b: bool) ensures b == self.matched().contains(e) { unimplemented!() }
}
//@struct src/react/react_component.rs React
pub enum Queued { Cmd(ReactionCommand) }
#[verifier::external_body] pub struct CommandsInner { _p: u8 }
pub type Commands<'w, 's> = &'s mut CommandsInner;
impl CommandsInner {
    pub uninterp spec fn log(&self) -> Seq<ReactionCommand>;
    #[verifier::external_body]
    pub fn queue(&mut self, c: ReactionCommand) ensures final(self).log() == old(self).log().push(c) { unimplemented!() }
}
// the parts of ReactCache these functions touch (the other fields are irrelevant here and outside this unit's stand-ins)
pub struct ComponentReactors { pub insertion_callbacks: Vec<ReactorHandle>, pub mutation_callbacks: Vec<ReactorHandle>, pub removal_callbacks: Vec<ReactorHandle> }
pub struct ReactCache { pub reaction_commands_buffer: Vec<ReactionCommand>, pub component_reactors: HashMap<TypeId, ComponentReactors> }

// ---- specification -------------------------------------------------------------------------------------------------------
pub open spec fn scoped_cmds(ids: Seq<SystemCommand>, src: Entity, rt: EntityReactionType) -> Seq<ReactionCommand> {
    ids.map_values(|s: SystemCommand| ReactionCommand::EntityReaction { reaction_source: src, reaction_type: rt, reactor: s })
}
pub open spec fn wide_cmds(hs: Seq<ReactorHandle>, src: Entity, rt: EntityReactionType) -> Seq<ReactionCommand> {
    hs.map_values(|h: ReactorHandle| ReactionCommand::EntityReaction { reaction_source: src, reaction_type: rt, reactor: h.sys() })
}
pub open spec fn scoped_of<D, F>(q: &Query<D, F>, e: Entity, rt: EntityReactionType) -> Seq<ReactionCommand> {
    if q.lists().dom().contains(e) { scoped_cmds(rt_ids(q.lists()[e].view(), rt), e, rt) } else { Seq::empty() }
}

//@fn src/react/react_cache.rs - schedule_entity_reaction_impl
//@| ensures final(buffer)@ == old(buffer)@ + (if reaction_type is Event { Seq::<ReactionCommand>::empty() } else { scoped_cmds(rt_ids(entity_reactors.view(), reaction_type), reaction_source, reaction_type) }),
//@loopvar 1 it
//@loop 1 | invariant buffer@ == old(buffer)@ + scoped_cmds(rt_ids(entity_reactors.view(), reaction_type), reaction_source, reaction_type).subrange(0, it.index@ as int),

impl ReactCache {
//@fn src/react/react_cache.rs impl ReactCache schedule_mutation_reaction
//@| requires old(cache).reaction_commands_buffer@.len() == 0,
//@| ensures ({ let e = verif_in.0; let rt = EntityReactionType::Mutation(type_id_spec::<C>()); let m = old(cache).component_reactors.view();
//@|     final(commands).log() == old(commands).log() + scoped_of(&entity_reactors, e, rt)
//@|         + (if m.dom().contains(type_id_spec::<C>()) { wide_cmds(m[type_id_spec::<C>()].mutation_callbacks@, e, rt) } else { Seq::empty() }) }),
//@|     final(cache).reaction_commands_buffer@.len() == 0,
//@loopvar 1 it
//@loop 1 | invariant it.seq() =~= scoped_of(&entity_reactors, entity, rtype), commands.log() == old(commands).log() + scoped_of(&entity_reactors, entity, rtype).subrange(0, it.index@ as int), rtype == EntityReactionType::Mutation(type_id_spec::<C>()), *final(commands) == *final(old(commands)),
//@loopvar 2 it
//@loop 2 | invariant commands.log() == old(commands).log() + scoped_of(&entity_reactors, entity, rtype) + wide_cmds(handlers.mutation_callbacks@, entity, rtype).subrange(0, it.index@ as int), rtype == EntityReactionType::Mutation(type_id_spec::<C>()), *final(commands) == *final(old(commands)),
//@fn src/react/react_cache.rs impl ReactCache schedule_insertion_reaction
//@| requires old(cache).reaction_commands_buffer@.len() == 0,
//@| ensures ({ let e = verif_in.0; let rt = EntityReactionType::Insertion(type_id_spec::<C>()); let m = old(cache).component_reactors.view();
//@|     // C14: reacted to iff the component was actually inserted (the entity carries React<C> when the command is applied)
//@|     final(commands).log() == (if !inserted.matched().contains(e) { old(commands).log() } else { old(commands).log() + scoped_of(&entity_reactors, e, rt)
//@|         + (if m.dom().contains(type_id_spec::<C>()) { wide_cmds(m[type_id_spec::<C>()].insertion_callbacks@, e, rt) } else { Seq::empty() }) }) }),
//@|     final(cache).reaction_commands_buffer@.len() == 0,
//@loopvar 1 it
//@loop 1 | invariant it.seq() =~= scoped_of(&entity_reactors, entity, rtype), commands.log() == old(commands).log() + scoped_of(&entity_reactors, entity, rtype).subrange(0, it.index@ as int), rtype == EntityReactionType::Insertion(type_id_spec::<C>()), *final(commands) == *final(old(commands)), inserted.matched().contains(entity),
//@loopvar 2 it
//@loop 2 | invariant commands.log() == old(commands).log() + scoped_of(&entity_reactors, entity, rtype) + wide_cmds(handlers.insertion_callbacks@, entity, rtype).subrange(0, it.index@ as int), rtype == EntityReactionType::Insertion(type_id_spec::<C>()), *final(commands) == *final(old(commands)), inserted.matched().contains(entity),
}

} // verus!
fn main() {}
