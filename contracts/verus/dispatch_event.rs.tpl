// Unit `dispatch_event` (C05, C01): ReactCache::schedule_entity_event_reaction (react_cache.rs), verbatim modulo extraction
// rule 18 (`X.map(|p| EXPR).unwrap_or_default()` read as `match X { Ok/Some(p) => EXPR, _ => Default::default() }`), for an
// entity-scoped list and a type-wide list of ANY length.
// Contract (C05: the payload's reader counter equals the number of queued readers; C01: exact dispatch):
//   n = (#registrations of this event type on the TARGET entity) + (#type-wide registrations of this event type);
//   n == 0  => nothing is spawned, nothing is queued (the event data is dropped);
//   n  > 0  => ONE data entity is spawned whose DataEntityCounter is exactly n, followed by exactly n EntityEvent commands: one
//             per entity-scoped registration (in list order), then one per type-wide registration (in list order), each naming
//             the target, THE data entity just spawned, and the registered reactor.
// ASSUMED: HashMap = finite partial map, Query / Commands stand-ins; EntityReactors::{count, iter_rtype} agree with each other on
// the entries of the reaction type (discharged on the real SmallVec-based code by K.entity_reactors.queries.*); machine arithmetic:
// the two list lengths do not overflow usize when added (precondition).
use vstd::prelude::*;
verus! {
//@include prelude.inc
//@enum src/react/utils.rs EntityReactionType
//@enum src/react/utils.rs ReactorHandle
//@impl src/react/utils.rs impl ReactorHandle
//@fn src/react/utils.rs impl ReactorHandle sys_command ret=r
//@| ensures r == self.sys(),
//@endimpl
impl ReactorHandle {
    pub open spec fn sys(&self) -> SystemCommand { match *self { ReactorHandle::Persistent(s) => s, ReactorHandle::AutoDespawn(sig) => SystemCommand(sig.spec_entity()) } }
}
//@enum src/react/commands.rs ReactionCommand
//@struct src/react/commands.rs DataEntityCounter
//@impl src/react/commands.rs impl DataEntityCounter
//@fn src/react/commands.rs impl DataEntityCounter new ret=r
//@| ensures r.count == count,
//@endimpl
pub uninterp spec fn type_id_spec<T: ?Sized>() -> TypeId;
impl TypeId { #[verifier::external_body] pub fn of<T: ?Sized>() -> (t: TypeId) ensures t == type_id_spec::<T>() { unimplemented!() } }
pub struct In<T>(pub T);
pub struct Res<'w, T> { pub value: &'w T }
impl<'w, T> core::ops::Deref for Res<'w, T> { type Target = T; fn deref(&self) -> (r: &T) ensures *r == *self.value { self.value } }
#[verifier::external_body]
#[verifier::reject_recursive_types(K)]
#[verifier::reject_recursive_types(V)]
pub struct HashMap<K, V> { _k: core::marker::PhantomData<(K, V)> }
impl<K, V> HashMap<K, V> {
    pub uninterp spec fn view(&self) -> Map<K, V>;
    #[verifier::external_body]
    pub fn get(&self, k: &K) -> (r: Option<&V>) ensures r == (if self.view().dom().contains(*k) { Some(&self.view()[*k]) } else { None::<&V> }) { unimplemented!() }
}
// ---- ASSUMED: the per-entity list and the query -------------------------------------------------------------------------
#[verifier::external_body] pub struct EntityReactors { _p: u8 }
pub open spec fn rt_ids(v: Seq<(EntityReactionType, SystemCommand)>, rt: EntityReactionType) -> Seq<SystemCommand> {
    v.filter(|x: (EntityReactionType, SystemCommand)| x.0 == rt).map_values(|x: (EntityReactionType, SystemCommand)| x.1)
}
#[verifier::external_body] pub struct RtIter<'a> { _p: core::marker::PhantomData<&'a u8> }
impl<'a> RtIter<'a> { pub uninterp spec fn elems(&self) -> Seq<SystemCommand>; pub uninterp spec fn pos(&self) -> nat; }
impl<'a> Iterator for RtIter<'a> { type Item = SystemCommand; #[verifier::external_body] fn next(&mut self) -> (r: Option<SystemCommand>) { unimplemented!() } }
impl<'a> vstd::std_specs::iter::IteratorSpecImpl for RtIter<'a> {
    open spec fn obeys_prophetic_iter_laws(&self) -> bool { true }
    open spec fn remaining(&self) -> Seq<SystemCommand> { self.elems().subrange(self.pos() as int, self.elems().len() as int) }
    open spec fn will_return_none(&self) -> bool { true }
    open spec fn decrease(&self) -> Option<nat> { Some((self.elems().len() - self.pos()) as nat) }
    open spec fn peek(&self, index: int) -> Option<SystemCommand> { if 0 <= index < self.elems().len() - self.pos() { Some(self.elems()[self.pos() + index]) } else { None } }
}
impl EntityReactors {
    pub uninterp spec fn view(&self) -> Seq<(EntityReactionType, SystemCommand)>;
    #[verifier::external_body]
    pub fn iter_rtype(&self, rtype: EntityReactionType) -> (r: RtIter<'_>) ensures r.elems() == rt_ids(self.view(), rtype), r.pos() == 0 { unimplemented!() }
    #[verifier::external_body]
    pub fn count(&self, rtype: EntityReactionType) -> (n: usize) ensures n == rt_ids(self.view(), rtype).len() { unimplemented!() }
}
#[derive(Copy, Clone)] pub struct QueryEntityError;
#[verifier::external_body]
#[verifier::reject_recursive_types(D)]
pub struct Query<'w, 's, D> { _p: core::marker::PhantomData<(&'w (), &'s (), D)> }
impl<'w, 's, D> Query<'w, 's, D> {
    pub uninterp spec fn lists(&self) -> Map<Entity, EntityReactors>;
    #[verifier::external_body]
    pub fn get(&self, e: Entity) -> (r: Result<&EntityReactors, QueryEntityError>)
        ensures r is Ok <==> self.lists().dom().contains(e), r is Ok ==> *r->Ok_0 == self.lists()[e] { unimplemented!() }
}
pub enum Queued { Cmd(ReactionCommand), SpawnData { entity: Entity, readers: usize } }
#[verifier::external_body] pub struct CommandsInner { _p: u8 }
pub type Commands<'w, 's> = &'s mut CommandsInner;
pub struct EntityCommands { pub e: Entity }
impl EntityCommands { pub fn id(&self) -> (r: Entity) ensures r == self.e { self.e } }
pub uninterp spec fn fresh_entity(log: Seq<Queued>) -> Entity;
impl CommandsInner {
    pub uninterp spec fn log(&self) -> Seq<Queued>;
    #[verifier::external_body]
    pub fn queue(&mut self, c: ReactionCommand) ensures final(self).log() == old(self).log().push(Queued::Cmd(c)) { unimplemented!() }
    // spawn of an event-data entity: (reader counter, payload); the payload is opaque here
    #[verifier::external_body]
    pub fn spawn<D>(&mut self, b: (DataEntityCounter, D)) -> (ec: EntityCommands)
        ensures ec.e == fresh_entity(old(self).log()), final(self).log() == old(self).log().push(Queued::SpawnData { entity: ec.e, readers: b.0.count }),
    { unimplemented!() }
}
#[verifier::external_body] #[verifier::reject_recursive_types(T)] pub struct EntityEventData<T> { _k: core::marker::PhantomData<T> }
impl<T> EntityEventData<T> { #[verifier::external_body] pub fn new(target: Entity, t: T) -> Self { unimplemented!() } }
// the part of ReactCache this function reads
pub struct ReactCache { pub any_entity_event_reactors: HashMap<TypeId, Vec<ReactorHandle>> }

// ---- specification -------------------------------------------------------------------------------------------------------
pub open spec fn scoped_ids<D>(q: &Query<D>, e: Entity, rt: EntityReactionType) -> Seq<SystemCommand> {
    if q.lists().dom().contains(e) { rt_ids(q.lists()[e].view(), rt) } else { Seq::empty() }
}
pub open spec fn wide_of(c: &ReactCache, t: TypeId) -> Seq<ReactorHandle> { if c.any_entity_event_reactors.view().dom().contains(t) { c.any_entity_event_reactors.view()[t]@ } else { Seq::empty() } }
pub open spec fn scoped_cmds(ids: Seq<SystemCommand>, target: Entity, d: Entity) -> Seq<Queued> {
    ids.map_values(|s: SystemCommand| Queued::Cmd(ReactionCommand::EntityEvent { target: target, data_entity: d, reactor: s }))
}
pub open spec fn wide_cmds(hs: Seq<ReactorHandle>, target: Entity, d: Entity) -> Seq<Queued> {
    hs.map_values(|h: ReactorHandle| Queued::Cmd(ReactionCommand::EntityEvent { target: target, data_entity: d, reactor: h.sys() }))
}

impl ReactCache {
//@fn src/react/react_cache.rs impl ReactCache schedule_entity_event_reaction
//@| requires scoped_ids(&entity_reactors, verif_in.0.0, EntityReactionType::Event(type_id_spec::<E>())).len() + wide_of(cache.value, type_id_spec::<E>()).len() <= usize::MAX,
//@| ensures ({ let target = verif_in.0.0; let rt = EntityReactionType::Event(type_id_spec::<E>());
//@|     let scoped = scoped_ids(&entity_reactors, target, rt); let wide = wide_of(cache.value, type_id_spec::<E>());
//@|     let n = scoped.len() + wide.len(); let d = fresh_entity(old(commands).log());
//@|     final(commands).log() == (if n == 0 { old(commands).log() }
//@|         else { old(commands).log().push(Queued::SpawnData { entity: d, readers: n as usize }) + scoped_cmds(scoped, target, d) + wide_cmds(wide, target, d) }) }),
//@ghost | let ghost verif_scoped = scoped_ids(&entity_reactors, target, EntityReactionType::Event(type_id_spec::<E>()));
//@mapdefault * | Ok, Some
//@loopvar 1 it
//@loop 1 | invariant it.seq() =~= verif_scoped, *final(commands) == *final(old(commands)),
//@loop 1 |     commands.log() == old(commands).log().push(Queued::SpawnData { entity: data_entity, readers: num }) + scoped_cmds(verif_scoped, target, data_entity).subrange(0, it.index@ as int),
//@loopvar 2 it2
//@loop 2 | invariant *final(commands) == *final(old(commands)),
//@loop 2 |     commands.log() == old(commands).log().push(Queued::SpawnData { entity: data_entity, readers: num }) + scoped_cmds(verif_scoped, target, data_entity) + wide_cmds(handlers@, target, data_entity).subrange(0, it2.index@ as int),
}

} // verus!
fn main() {}
