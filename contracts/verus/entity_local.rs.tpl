// Unit `entity_local` (C16): EntityLocal<T>::{check, entity, get, get_mut} (entity_reaction_readers.rs), verbatim and generic in the
// reactor type.  The accessors PANIC unless the entity-reaction tracker is reacting AND the running system is THIS reactor's system
// (`check`): Verus proves panic-freedom exactly under that precondition - `in_own_run` - plus the presence of the local data, and:
//   entity()  = the source entity of the current reaction;
//   get()     = (that entity, the local data stored on THAT entity);
//   get_mut() = (that entity, exclusive access to the local data stored on THAT entity) - a write lands on that entity's data and
//               on no other entity's.
// That the accessors DO panic outside the reactor's own run is the Kani half (K.entity_world.local.*).
use vstd::prelude::*;
use std::marker::PhantomData;
verus! {
//@include prelude.inc
//@enum src/react/utils.rs EntityReactionType
pub struct Res<'w, T> { pub value: &'w T }
impl<'w, T> core::ops::Deref for Res<'w, T> { type Target = T; fn deref(&self) -> (r: &T) ensures *r == *self.value { self.value } }
pub type ResMut<'w, T> = &'w mut T;
pub type Mut<'a, T> = &'a mut T;
// Mut::into_inner: the plain `&mut` (Bevy's Mut<T> is a smart pointer; here it IS `&mut T`)
pub trait IntoInner<'a, T> { spec fn cur(&self) -> T; #[verifier::prophetic] spec fn fin(&self) -> T; fn into_inner(self) -> (r: &'a mut T) ensures *r == self.cur(), *final(r) == self.fin(); }
impl<'a, T> IntoInner<'a, T> for &'a mut T {
    open spec fn cur(&self) -> T { **self }
    #[verifier::prophetic] open spec fn fin(&self) -> T { *final(*self) }
    fn into_inner(self) -> (r: &'a mut T) { self }
}
pub trait EntityWorldReactor: Sized + 'static { type Local; }
#[derive(Debug)] pub struct QueryEntityError;
pub trait QData { type Item; }
impl<X: 'static> QData for &'static mut X { type Item = X; }
#[verifier::external_body] #[verifier::accept_recursive_types(D)]
pub struct Query<'w, 's, D: QData> { _p: PhantomData<(&'w (), &'s (), D)> }
impl<'w, 's, D: QData> Query<'w, 's, D> {
    pub uninterp spec fn items(&self) -> Map<Entity, D::Item>;
    #[verifier::external_body]
    pub fn get(&self, e: Entity) -> (r: Result<&D::Item, QueryEntityError>)
        ensures r is Ok <==> self.items().dom().contains(e), r is Ok ==> *r->Ok_0 == self.items()[e] { unimplemented!() }
    #[verifier::external_body]
    pub fn get_mut(&mut self, e: Entity) -> (r: Result<Mut<'_, D::Item>, QueryEntityError>)
        ensures r is Ok <==> old(self).items().dom().contains(e),
                r is Ok ==> (*r->Ok_0 == old(self).items()[e] && final(self).items() == old(self).items().insert(e, *final(r->Ok_0))),
                r is Err ==> final(self).items() == old(self).items() { unimplemented!() }
}
//@struct src/react/entity_reaction_readers.rs EntityReactionAccessTracker
//@impl src/react/entity_reaction_readers.rs impl EntityReactionAccessTracker
//@fn src/react/entity_reaction_readers.rs impl EntityReactionAccessTracker is_reacting ret=r
//@| ensures r == self.currently_reacting,
//@fn src/react/entity_reaction_readers.rs impl EntityReactionAccessTracker system ret=r
//@| ensures r == self.system,
//@fn src/react/entity_reaction_readers.rs impl EntityReactionAccessTracker source ret=r
//@| ensures r == self.reaction_source,
//@endimpl
//@struct src/react/entity_world_reactor.rs EntityWorldReactorRes
//@struct src/react/entity_world_reactor.rs EntityWorldLocal
//@impl src/react/entity_world_reactor.rs impl EntityWorldLocal
//@fn src/react/entity_world_reactor.rs impl EntityWorldLocal inner ret=r
//@| ensures *r == self.data,
//@fn src/react/entity_world_reactor.rs impl EntityWorldLocal inner_mut ret=r
//@| ensures *r == old(self).data, final(self).data == *final(r),
//@endimpl
//@struct src/react/entity_world_reactor.rs EntityReactor
//@impl src/react/entity_world_reactor.rs impl EntityReactor
//@fn src/react/entity_world_reactor.rs impl EntityReactor system ret=r
//@| ensures r == (if self.inner is Some { Some(self.inner->Some_0.sys_command) } else { None::<SystemCommand> }),
//@endimpl
//@struct src/react/entity_reaction_readers.rs EntityLocal
/// "inside a run of this reactor's own system"
pub open spec fn in_own_run<T: EntityWorldReactor>(l: &EntityLocal<T>) -> bool {
    l.tracker.value.currently_reacting && l.reactor.inner is Some && l.tracker.value.system == l.reactor.inner->Some_0.sys_command
}
//@impl src/react/entity_reaction_readers.rs impl EntityLocal
//@fn src/react/entity_reaction_readers.rs impl EntityLocal check
//@| requires in_own_run(self),
//@fn src/react/entity_reaction_readers.rs impl EntityLocal entity ret=r
//@| requires in_own_run(self),
//@| ensures r == self.tracker.value.reaction_source,
//@fn src/react/entity_reaction_readers.rs impl EntityLocal get ret=r
//@| requires in_own_run(self), self.data.items().dom().contains(self.tracker.value.reaction_source),
//@| ensures r.0 == self.tracker.value.reaction_source, *r.1 == self.data.items()[r.0].data,
//@fn src/react/entity_reaction_readers.rs impl EntityLocal get_mut ret=r
//@| requires in_own_run(old(self)), old(self).data.items().dom().contains(old(self).tracker.value.reaction_source),
//@| ensures r.0 == old(self).tracker.value.reaction_source, *r.1 == old(self).data.items()[r.0].data,
//@|         final(self).data.items() == old(self).data.items().insert(r.0, EntityWorldLocal { data: *final(r.1) }),
//@endimpl

} // verus!
fn main() {}
