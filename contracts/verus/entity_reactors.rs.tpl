// Unit `entity_reactors` (C06, C01, C16): EntityReactors::{insert, remove} (utils.rs) - the per-entity registration list.
//   insert(rtype, handle): the pair is appended; every existing entry stays, in order;
//   remove(rtype, id): EXACTLY the entries whose reaction type is rtype AND whose handle names reactor id are removed - all of them -
//   and every other entry (other type, or other reactor) stays, in order (C06: revocation is local; C01: the neighbours still fire).
// `remove` is one statement, `self.reactors.drain_filter(|(reaction_type, handle)| { .. });`; extraction rule 22 lifts the closure
// (body byte-for-byte) and reads drain_filter as the loop smallvec documents.  SmallVec = an assumed sequence stand-in.
// The iterator-returning queries (iter_rtype, iter_reactors, count) are lazy adapter chains, outside Verus' subset: they stay with
// K.entity_reactors.queries.* (bounded).
use vstd::prelude::*;
verus! {
//@include prelude.inc
//@enum src/react/utils.rs EntityReactionType structural
//@enum src/react/utils.rs ReactorHandle
//@impl src/react/utils.rs impl ReactorHandle
//@fn src/react/utils.rs impl ReactorHandle sys_command ret=r
//@| ensures r == self.sys(),
//@endimpl
impl ReactorHandle {
    pub open spec fn sys(&self) -> SystemCommand { match *self { ReactorHandle::Persistent(s) => s, ReactorHandle::AutoDespawn(sig) => SystemCommand(sig.spec_entity()) } }
}
pub const ENTITY_REACTORS_STATIC_SIZE: usize = 6;
pub const ENTITY_REACTORS_WARNING_SIZE: usize = 50;
// ---- ASSUMED: SmallVec<[T; N]> as a sequence ---------------------------------------------------------------------------------
#[verifier::external_body]
#[verifier::reject_recursive_types(A)]
pub struct SmallVec<A> { _p: core::marker::PhantomData<A> }
pub trait Array { type Item; }
impl<T, const N: usize> Array for [T; N] { type Item = T; }
impl<A: Array> SmallVec<A> {
    pub uninterp spec fn view(&self) -> Seq<A::Item>;
    #[verifier::external_body]
    pub fn len(&self) -> (n: usize) ensures n == self@.len() { unimplemented!() }
    #[verifier::external_body]
    pub fn push(&mut self, x: A::Item) ensures final(self)@ == old(self)@.push(x) { unimplemented!() }
    // the two operations the loop of rule 22 is written with
    #[verifier::external_body]
    pub fn verif_at(&self, i: usize) -> (r: &A::Item) requires i < self@.len() ensures *r == self@[i as int] { unimplemented!() }
    #[verifier::external_body]
    pub fn verif_remove(&mut self, i: usize) -> (r: A::Item) requires i < old(self)@.len() ensures r == old(self)@[i as int], final(self)@ == old(self)@.remove(i as int) { unimplemented!() }
}
//@struct src/react/utils.rs EntityReactors

// ---- specification ---------------------------------------------------------------------------------------------------------
pub open spec fn hit(x: (EntityReactionType, ReactorHandle), rtype: EntityReactionType, id: SystemCommand) -> bool { x.0 == rtype && x.1.sys() == id }
/// the list without the entries that `remove(rtype, id)` names, order preserved
pub open spec fn without(s: Seq<(EntityReactionType, ReactorHandle)>, rtype: EntityReactionType, id: SystemCommand) -> Seq<(EntityReactionType, ReactorHandle)>
    decreases s.len()
{
    if s.len() == 0 { Seq::empty() } else { let r = without(s.drop_last(), rtype, id); if hit(s.last(), rtype, id) { r } else { r.push(s.last()) } }
}

//@impl src/react/utils.rs impl EntityReactors
//@fn src/react/utils.rs impl EntityReactors insert
//@| ensures final(self).reactors@ == old(self).reactors@.push((rtype, handle)),
//@fn src/react/utils.rs impl EntityReactors remove
//@| ensures final(self).reactors@ == without(old(self).reactors@, rtype, reactor_id),
//@liftdrainfilter self.reactors.drain_filter | remove_pred | (EntityReactionType, ReactorHandle) |
//@lift| ensures b == hit(*verif_x, rtype, reactor_id),
//@lift.pre| let ghost verif_orig = self.reactors@; let ghost mut verif_k: int = 0;
//@lift.inv| 0 <= verif_k <= verif_orig.len(), verif_i == without(verif_orig.take(verif_k), rtype, reactor_id).len(),
//@lift.inv| self.reactors@ == without(verif_orig.take(verif_k), rtype, reactor_id) + verif_orig.skip(verif_k),
//@lift.removed| proof { assert(verif_orig.take(verif_k + 1).drop_last() =~= verif_orig.take(verif_k)); assert(verif_orig.take(verif_k + 1).last() == verif_orig[verif_k]); assert(self.reactors@ =~= without(verif_orig.take(verif_k + 1), rtype, reactor_id) + verif_orig.skip(verif_k + 1)); verif_k = verif_k + 1; }
//@lift.kept| proof { assert(verif_orig.take(verif_k + 1).drop_last() =~= verif_orig.take(verif_k)); assert(verif_orig.take(verif_k + 1).last() == verif_orig[verif_k]); assert(self.reactors@ =~= without(verif_orig.take(verif_k + 1), rtype, reactor_id) + verif_orig.skip(verif_k + 1)); verif_k = verif_k + 1; }
//@lift.after| assert(verif_k == verif_orig.len()); assert(verif_orig.take(verif_orig.len() as int) =~= verif_orig); assert(verif_orig.skip(verif_orig.len() as int) =~= Seq::empty());
//@endimpl

} // verus!
fn main() {}
