// Unit `gc` (C10, C07): garbage_collect_entities (src/ecs/auto_despawn.rs), verbatim modulo rule 15 (the statement
// `world.get_entity_mut(entity).ok().map(|e| e.despawn_recursive());` read as `if let Ok(e) = .. { e.despawn_recursive(); }`).
//
// Modelling decision (ASSUMED, stated in the evidence): the request channel lives behind `&self` (crossbeam's interior
// mutability), for which Verus has no contract language.  The stand-ins below give `World::resource::<AutoDespawner>()` and
// `AutoDespawner::try_recv` EXCLUSIVE access (`&mut self`) to the same state; the verbatim call chain
// `world.resource::<AutoDespawner>().try_recv()` type-checks against them unchanged.  The channel is a FIFO sequence of
// pending requests (`pending()`); a despawn may append further requests (signals dropped with the despawned components).
// Producers on other threads are not modelled (sequential histories only; C10's claim says so).
//
// Contract of ONE collection:
//   G1 the request channel is EMPTY on return - the collector does not stop early, whatever it finds (C10 'first garbage
//      collection after every clone has been dropped', C07);
//   G2 every entity whose request was pending on entry is not alive on return, whether it was despawned here or was gone
//      already (requests for dead entities are skipped, not an error: C10 'ignores entities that are already gone');
//   G3 nothing is ever revived: the live set only shrinks.
// Termination is not verified (a despawn can enqueue further requests without bound).
use vstd::prelude::*;
verus! {
#[derive(Copy, Clone, PartialEq, Eq, Structural)] pub struct Entity(pub u64);
#[verifier::external_body] pub struct World { _p: u8 }
#[verifier::external_body] pub struct AutoDespawner { _p: u8 }
#[verifier::external_body] pub struct EntityView { _p: u8 }
pub type EntityWorldMut<'w> = &'w mut EntityView;
pub struct EntityFetchError;
impl AutoDespawner {
    pub uninterp spec fn pending(&self) -> Seq<Entity>;
    // ASSUMED (discharged on the real AutoDespawner + assumed channel by K.autodespawn.signal.*): one request is taken from the
    // FRONT of the channel, None iff there is none.  `&mut self` instead of `&self`: see the header.
    #[verifier::external_body]
    pub fn try_recv(&mut self) -> (r: Option<Entity>)
        ensures old(self).pending().len() == 0 ==> (r is None && final(self).pending() == old(self).pending()),
                old(self).pending().len() > 0 ==> (r == Some(old(self).pending()[0]) && final(self).pending() == old(self).pending().skip(1)),
    { unimplemented!() }
}
impl EntityView {
    pub uninterp spec fn id(&self) -> Entity;
    pub uninterp spec fn despawned(&self) -> bool;
    // DespawnRecursiveExt::despawn_recursive (consumes the handle in Bevy; here the handle IS the &mut)
    #[verifier::external_body]
    pub fn despawn_recursive(&mut self) ensures final(self).despawned(), final(self).id() == old(self).id() { unimplemented!() }
}
pub trait Resource: Sized { spec fn get(w: &World) -> Self; spec fn frame(a: &World, b: &World) -> bool; }
impl Resource for AutoDespawner {
    open spec fn get(w: &World) -> Self { w.despawner() }
    open spec fn frame(a: &World, b: &World) -> bool { a.alive() == b.alive() }
}
impl World {
    pub uninterp spec fn alive(&self) -> Set<Entity>;
    pub uninterp spec fn despawner(&self) -> AutoDespawner;
    pub open spec fn pending(&self) -> Seq<Entity> { self.despawner().pending() }
    // World::resource::<R>() - `&mut self` instead of `&self`: see the header
    #[verifier::external_body]
    pub fn resource<R: Resource>(&mut self) -> (r: &mut R)
        ensures *r == R::get(old(self)), R::get(final(self)) == *final(r), R::frame(old(self), final(self)),
    { unimplemented!() }
    // World::get_entity_mut(e): a handle to e iff it is alive.  If the handle is used to despawn, e is gone afterwards, nothing
    // is revived, and further requests may have been appended to the channel (signals owned by the despawned tree); otherwise
    // live set and channel are as before.
    #[verifier::external_body]
    pub fn get_entity_mut(&mut self, e: Entity) -> (r: Result<EntityWorldMut<'_>, EntityFetchError>)
        ensures r is Ok <==> old(self).alive().contains(e),
                r is Err ==> (final(self).alive() == old(self).alive() && final(self).pending() == old(self).pending()),
                r is Ok ==> ({ let v = *r->Ok_0; let fv = *final(r->Ok_0);
                    v.id() == e && !v.despawned()
                    && (fv.despawned() ==> (!final(self).alive().contains(e) && final(self).alive().subset_of(old(self).alive())
                                           && old(self).pending().is_prefix_of(final(self).pending())))
                    && (!fv.despawned() ==> (final(self).alive() == old(self).alive() && final(self).pending() == old(self).pending())) }),
    { unimplemented!() }
}

// two facts about sequences the solver does not find on its own (proved here, not assumed)
pub broadcast proof fn lemma_skip_contains(s: Seq<Entity>, e: Entity)
    requires s.len() > 0, s.contains(e),
    ensures e == s[0] || #[trigger] s.skip(1).contains(e),
{
    let i = choose|i: int| 0 <= i < s.len() && s[i] == e;
    if i > 0 { assert(s.skip(1)[i - 1] == e); }
}
pub broadcast proof fn lemma_prefix_contains(p: Seq<Entity>, q: Seq<Entity>, e: Entity)
    requires #[trigger] p.is_prefix_of(q),
    ensures p.contains(e) ==> #[trigger] q.contains(e),
{
    if p.contains(e) {
        let i = choose|i: int| 0 <= i < p.len() && p[i] == e;
        assert(q[i] == e);
    }
}

#[verifier::exec_allows_no_decreases_clause]
//@fn src/ecs/auto_despawn.rs - garbage_collect_entities
//@ghost | broadcast use lemma_skip_contains, lemma_prefix_contains;
//@| ensures final(world).pending().len() == 0,
//@|         forall|e: Entity| #[trigger] old(world).pending().contains(e) ==> !final(world).alive().contains(e),
//@|         final(world).alive().subset_of(old(world).alive()),
//@okmap? world.get_entity_mut(entity)
//@loop 1 | invariant world.alive().subset_of(old(world).alive()),
//@loop 1 |     forall|e: Entity| #[trigger] old(world).pending().contains(e) ==> (!world.alive().contains(e) || world.pending().contains(e)),
//@loop 1 | ensures world.pending().len() == 0,
//@loopbody 1 | let ghost verif_w1 = *world;
//@loopbody 1 | let ghost verif_s0 = choose|s: Seq<Entity>| s.len() > 0 && s[0] == entity && verif_w1.pending() == s.skip(1) && (forall|e: Entity| #[trigger] old(world).pending().contains(e) ==> (!verif_w1.alive().contains(e) || s.contains(e)));
//@loopbody 1 | assert(verif_s0.len() > 0 && verif_s0[0] == entity && verif_w1.pending() == verif_s0.skip(1));
//@loopbody 1 | assert forall|e: Entity| #[trigger] old(world).pending().contains(e) implies (!verif_w1.alive().contains(e) || e == entity || verif_w1.pending().contains(e)) by { if verif_s0.contains(e) { lemma_skip_contains(verif_s0, e); } }

} // verus!
fn main() {}
