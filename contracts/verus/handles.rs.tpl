// Unit `handles` (C01, C07, C13, C16, C04): small verbatim functions that carry identity through the framework.
use vstd::prelude::*;
verus! {
//@include prelude.inc
//@enum src/react/utils.rs ReactorHandle
//@enum src/react/utils.rs ReactorType
//@enum src/react/react_commands.rs ReactorMode

// ---- ReactorHandle::sys_command: the id under which a registration is stored / revoked / scheduled (C01, C06) ----
//@impl src/react/utils.rs impl ReactorHandle
//@fn src/react/utils.rs impl ReactorHandle sys_command ret=r
//@| ensures r == (match *self { ReactorHandle::Persistent(s) => s, ReactorHandle::AutoDespawn(sig) => SystemCommand(sig.spec_entity()) }),
//@endimpl

// ---- ReactorType::get_entity: which entity (if any) a trigger is scoped to (C16 cleanup, C06 token walk) ----
//@impl src/react/utils.rs impl ReactorType
//@fn src/react/utils.rs impl ReactorType get_entity ret=r
//@| ensures r == (match *self {
//@|     ReactorType::EntityInsertion(e, _) => Some(e),
//@|     ReactorType::EntityMutation(e, _) => Some(e),
//@|     ReactorType::EntityRemoval(e, _) => Some(e),
//@|     ReactorType::EntityEvent(e, _) => Some(e),
//@|     ReactorType::Despawn(e) => Some(e),
//@|     _ => None::<Entity>,
//@| }),
//@endimpl

// ---- ReactorMode::prepare: persistent reactors are never ref-counted; others get a signal for THEIR entity (C07) ----
//@impl src/react/react_commands.rs impl ReactorMode
//@fn src/react/react_commands.rs impl ReactorMode prepare ret=h
//@| ensures *self == ReactorMode::Persistent ==> h == ReactorHandle::Persistent(sys_command),
//@|         *self != ReactorMode::Persistent ==> (h matches ReactorHandle::AutoDespawn(s) && s.spec_entity() == sys_command.0),
//@endimpl

// ---- SystemCommandStorage: take / run / reinsert of the one callback a system command owns (C13, C17) ----
// SystemCommandCallback wraps a Box<dyn FnMut>; opaque value here (only moved around by these functions).
pub struct SystemCommandCallback { pub id: u64 }
//@struct src/react/system_command_spawning.rs SystemCommandStorage
//@impl src/react/system_command_spawning.rs impl SystemCommandStorage
//@fn src/react/system_command_spawning.rs impl SystemCommandStorage new ret=r
//@| ensures r.callback == Some(callback),
//@fn src/react/system_command_spawning.rs impl SystemCommandStorage insert
//@| ensures final(self).callback == Some(callback),
//@fn src/react/system_command_spawning.rs impl SystemCommandStorage take ret=r
//@| ensures r == old(self).callback, final(self).callback is None,
//@endimpl

/// C13 glue: take; (run); insert puts back exactly the instance that was taken, and a second take while it is
/// out yields None (that is what makes the runner postpone a recursive command instead of re-creating state).
pub fn check_take_insert_roundtrip(cb: SystemCommandCallback)
{
    let ghost id = cb.id;
    let mut st = SystemCommandStorage::new(cb);
    let t = st.take();
    assert(t is Some && t->0.id == id);
    let t2 = st.take();
    assert(t2 is None);
    match t { Some(c) => { st.insert(c); } None => {} }
    assert(st.callback is Some && st.callback->0.id == id);
}

// ---- SystemEventData: a system-event payload can be taken at most once (C04) ----
//@struct src/react/system_event_reader.rs SystemEventData
//@impl src/react/system_event_reader.rs impl SystemEventData
//@fn src/react/system_event_reader.rs impl SystemEventData new ret=r
//@| ensures r.data == Some(data),
//@fn src/react/system_event_reader.rs impl SystemEventData take ret=r
//@| ensures r == old(self).data, final(self).data is None,
//@endimpl

pub fn check_take_at_most_once(x: u64)
{
    let mut d = SystemEventData::<u64>::new(x);
    let a = d.take();
    let b = d.take();
    assert(a == Some(x));
    assert(b is None);
}

// ---- SystemCommandCleanup::new / default: the cleanup slot carried next to a command ----
// (fn-pointer call in `run` is outside Verus' subset; `run` is under Kani contract in unit K.cleanup.)

} // verus!
fn main() {}
