// Unit `lemmas`: property layer over the contracts of the table operations (L3: C01/C06) and the handle
// ref-count (L4: C07/C10).  Pure mathematics over Seq - no repo code here; the per-call contracts these lemmas
// compose are discharged on the real functions by the Kani units K.table.* / K.autodespawn.* .
use vstd::prelude::*;
verus! {

// ---------------------------------------------------------------- L3: registration tables
pub open spec fn count(s: Seq<int>, id: int) -> nat decreases s.len() {
    if s.len() == 0 { 0 } else { count(s.drop_last(), id) + (if s.last() == id { 1nat } else { 0nat }) }
}
pub open spec fn first_idx(s: Seq<int>, id: int) -> int decreases s.len() {
    if s.len() == 0 { -1 }
    else if s[0] == id { 0 }
    else { let t = first_idx(s.subrange(1, s.len() as int), id); if t < 0 { -1 } else { t + 1 } }
}
/// contract of ReactCache::register_*  (one list): push one entry
pub open spec fn register_spec(s: Seq<int>, id: int) -> Seq<int> { s.push(id) }
/// contract of ReactCache::revoke_*    (one list): delete the FIRST entry of id, others keep their order
pub open spec fn revoke_spec(s: Seq<int>, id: int) -> Seq<int> {
    let i = first_idx(s, id); if i < 0 { s } else { s.remove(i) }
}

pub proof fn lemma_first_idx(s: Seq<int>, id: int)
    ensures -1 <= first_idx(s, id) < s.len(),
            first_idx(s, id) >= 0 ==> s[first_idx(s, id)] == id,
            first_idx(s, id) < 0 <==> count(s, id) == 0,
    decreases s.len()
{
    if s.len() > 0 {
        let t = s.subrange(1, s.len() as int);
        lemma_first_idx(t, id);
        lemma_count_cons(s, id);
    }
}

pub proof fn lemma_count_cons(s: Seq<int>, id: int)
    requires s.len() > 0
    ensures count(s, id) == count(s.subrange(1, s.len() as int), id) + (if s[0] == id { 1nat } else { 0nat })
    decreases s.len()
{
    let t = s.subrange(1, s.len() as int);
    if s.len() == 1 {
        assert(s.drop_last() =~= Seq::<int>::empty());
        assert(t =~= Seq::<int>::empty());
    } else {
        lemma_count_cons(s.drop_last(), id);
        assert(s.drop_last().subrange(1, s.len() as int - 1) =~= t.drop_last());
        assert(t.last() == s.last());
        assert(s.drop_last()[0] == s[0]);
    }
}

pub proof fn lemma_count_remove(s: Seq<int>, i: int, id: int)
    requires 0 <= i < s.len()
    ensures count(s.remove(i), id) == count(s, id) - (if s[i] == id { 1int } else { 0int })
    decreases s.len()
{
    if i == s.len() - 1 {
        assert(s.remove(i) =~= s.drop_last());
    } else {
        lemma_count_remove(s.drop_last(), i, id);
        assert(s.remove(i).drop_last() =~= s.drop_last().remove(i));
        assert(s.remove(i).last() == s.last());
    }
}

/// L3a: register adds exactly one entry of `id` and none of any other id.
pub proof fn lemma_register(s: Seq<int>, id: int, other: int)
    requires other != id
    ensures count(register_spec(s, id), id) == count(s, id) + 1,
            count(register_spec(s, id), other) == count(s, other),
{
    assert(s.push(id).drop_last() =~= s);
}

/// L3b: revoke removes exactly one entry of `id` if there is one (idempotent otherwise), never one of another id.
pub proof fn lemma_revoke(s: Seq<int>, id: int, other: int)
    requires other != id
    ensures count(revoke_spec(s, id), id) == (if count(s, id) == 0 { 0nat } else { (count(s, id) - 1) as nat }),
            count(revoke_spec(s, id), other) == count(s, other),
            count(s, id) == 0 ==> revoke_spec(s, id) == s,
{
    lemma_first_idx(s, id);
    let i = first_idx(s, id);
    if i >= 0 { lemma_count_remove(s, i, id); lemma_count_remove(s, i, other); }
}

/// L3c (C06 "complete"): a reactor registered once on a list is gone after one revoke: nothing schedules it again;
/// a second revoke changes nothing.
pub proof fn lemma_single_registration_revoked(s: Seq<int>, id: int)
    requires count(s, id) == 0
    ensures count(revoke_spec(register_spec(s, id), id), id) == 0,
            revoke_spec(revoke_spec(register_spec(s, id), id), id) == revoke_spec(register_spec(s, id), id),
{
    assert(s.push(id).drop_last() =~= s);
    lemma_revoke(s.push(id), id, id + 1);
    lemma_revoke(revoke_spec(s.push(id), id), id, id + 1);
}

/// L3d (C01): the number of runs a trigger schedules from one list = number of live registrations on it, for any
/// history: counts compose additively over register / revoke.
pub open spec fn apply_hist(s: Seq<int>, h: Seq<(bool, int)>) -> Seq<int> decreases h.len() {
    if h.len() == 0 { s }
    else { let p = apply_hist(s, h.drop_last()); if h.last().0 { register_spec(p, h.last().1) } else { revoke_spec(p, h.last().1) } }
}
pub open spec fn net(h: Seq<(bool, int)>, id: int, start: nat) -> nat decreases h.len() {
    if h.len() == 0 { start }
    else {
        let p = net(h.drop_last(), id, start);
        if h.last().1 != id { p } else if h.last().0 { p + 1 } else if p == 0 { 0 } else { (p - 1) as nat }
    }
}
pub proof fn lemma_history(s: Seq<int>, h: Seq<(bool, int)>, id: int)
    ensures count(apply_hist(s, h), id) == net(h, id, count(s, id))
    decreases h.len()
{
    if h.len() > 0 {
        lemma_history(s, h.drop_last(), id);
        let p = apply_hist(s, h.drop_last());
        let (reg, x) = h.last();
        if x == id {
            if reg { lemma_register(p, id, id + 1); } else { lemma_revoke(p, id, id + 1); }
        } else {
            if reg { lemma_register(p, x, id); } else { lemma_revoke(p, x, id); }
        }
    }
}

// ---------------------------------------------------------------- L4: handle ref-count (C07 / C10)
// State of one AutoDespawnSignal family: number of live clones k (Arc strong count) and number of times the
// entity id has been sent on the channel.  ASSUMED Arc contract: clone: k+1; drop: k-1 and `Drop for Inner`
// runs iff the result is 0.  Events: true = clone (needs k>=1), false = drop (needs k>=1).
pub open spec fn rc_step(st: (nat, nat), ev: bool) -> (nat, nat) {
    if st.0 == 0 { st }                       // no clone left: no event possible
    else if ev { (st.0 + 1, st.1) }
    else if st.0 == 1 { (0, st.1 + 1) }       // last drop sends the entity exactly once
    else { ((st.0 - 1) as nat, st.1) }
}
pub open spec fn rc_run(st: (nat, nat), evs: Seq<bool>) -> (nat, nat) decreases evs.len() {
    if evs.len() == 0 { st } else { rc_step(rc_run(st, evs.drop_last()), evs.last()) }
}
/// For every history: the entity is sent at most once, and it has been sent iff no clone is left.
pub proof fn lemma_refcount_exact(evs: Seq<bool>)
    ensures ({ let r = rc_run((1, 0), evs); (r.1 == 0 && r.0 >= 1) || (r.1 == 1 && r.0 == 0) })
    decreases evs.len()
{
    if evs.len() > 0 { lemma_refcount_exact(evs.drop_last()); }
}

} // verus!
fn main() {}
