// Unit `poll` (C07, C01; function-level facts behind C08): schedule_removal_and_despawn_reactors (utils.rs) - the poll the runner
// performs at the start of every run, after every run and on every abort, and that the plugin schedules in Last.
// Its `resource_scope` closure is lifted verbatim (extraction rule 16).
// Contract: ONE poll = removal dispatch, THEN despawn dispatch, on the cache taken out of the world, THEN the cache is put back
// and the world's command queue is flushed - so every reaction command queued by the two dispatchers is applied before the poll
// returns.  The two dispatchers are uninterpreted effects here (schedule_despawn_reactions: unit `despawn_dispatch`;
// schedule_removal_reactions: not under contract).
use vstd::prelude::*;
verus! {
pub type Mut<'a, T> = &'a mut T;
#[verifier::external_body] pub struct World { _p: u8 }
#[verifier::external_body] pub struct ReactCache { _p: u8 }
pub uninterp spec fn removal_eff(c: ReactCache, w: World) -> (ReactCache, World);
pub uninterp spec fn despawn_eff(c: ReactCache, w: World) -> (ReactCache, World);
pub uninterp spec fn flush_eff(w: World) -> World;
pub uninterp spec fn without_cache(w: World) -> World;
pub uninterp spec fn with_cache(w: World, c: ReactCache) -> World;
pub trait Resource: Sized { spec fn get(w: &World) -> Self; }
impl Resource for ReactCache { open spec fn get(w: &World) -> Self { w.cache() } }
impl World {
    pub uninterp spec fn cache(&self) -> ReactCache;
    // the two halves of World::resource_scope (rule 16)
    #[verifier::external_body]
    pub fn verif_scope_take<R: Resource>(&mut self) -> (r: R) ensures r == R::get(old(self)), *final(self) == without_cache(*old(self)) { unimplemented!() }
    #[verifier::external_body]
    pub fn verif_scope_put(&mut self, r: ReactCache) ensures *final(self) == with_cache(*old(self), r) { unimplemented!() }
    // World::flush(): applies every queued command now
    #[verifier::external_body]
    pub fn flush(&mut self) ensures *final(self) == flush_eff(*old(self)) { unimplemented!() }
}
//@impl src/react/react_cache.rs impl ReactCache
//@extern src/react/react_cache.rs impl ReactCache schedule_removal_reactions
//@| ensures (*final(self), *final(world)) == removal_eff(*old(self), *old(world)),
//@extern src/react/react_cache.rs impl ReactCache schedule_despawn_reactions
//@| ensures (*final(self), *final(world)) == despawn_eff(*old(self), *old(world)),
//@endimpl
pub open spec fn polled(c0: ReactCache, w0: World) -> (ReactCache, World) { let r = removal_eff(c0, w0); despawn_eff(r.0, r.1) }

//@fn src/react/utils.rs - schedule_removal_and_despawn_reactors
//@| ensures ({ let p = polled(old(world).cache(), without_cache(*old(world))); *final(world) == flush_eff(with_cache(p.1, p.0)) }),
//@liftscope world.resource_scope | poll_scope |
//@lift| ensures (*final(cache), *final(world)) == polled(*old(cache), *old(world)),

} // verus!
fn main() {}
