// Unit `queue` (C12, C09-ingredient): src/react/command_queue.rs, the postponed-command buffer.
// View: q(queue) = self.commands@ (a Seq).  `buffers` is a cache of EMPTY spare buffers (invariant `wf`).
use vstd::prelude::*;
use std::collections::VecDeque;
verus! {

// ASSUMED: core::mem::replace returns the old value and stores the new one.
pub assume_specification<T>[ core::mem::replace::<T> ](dest: &mut T, src: T) -> (r: T)
    ensures *final(dest) == src, r == *old(dest);

//@struct src/react/command_queue.rs CobwebCommandQueue

impl<T: Send + Sync + 'static> CobwebCommandQueue<T> {
    /// Representation invariant: every cached spare buffer is empty (so `remove` leaves an empty queue behind).
    pub open spec fn wf(&self) -> bool {
        forall|i: int| 0 <= i < self.buffers@.len() ==> (#[trigger] self.buffers@[i])@.len() == 0
    }
}

//@impl src/react/command_queue.rs impl CobwebCommandQueue
//@fn src/react/command_queue.rs impl CobwebCommandQueue remove ret=r
//@| requires old(self).wf(),
//@| ensures r@ == old(self).commands@,
//@|         final(self).commands@.len() == 0,
//@|         final(self).wf(),
//@fn src/react/command_queue.rs impl CobwebCommandQueue push
//@| ensures final(self).commands@ == old(self).commands@.push(command),
//@|         final(self).buffers@ == old(self).buffers@,
//@fn src/react/command_queue.rs impl CobwebCommandQueue pop_front ret=r
//@| ensures old(self).commands@.len() == 0 ==> r.is_none() && final(self).commands@ == old(self).commands@,
//@|         old(self).commands@.len() > 0 ==> r == Some(old(self).commands@[0])
//@|             && final(self).commands@ == old(self).commands@.subrange(1, old(self).commands@.len() as int),
//@|         final(self).buffers@ == old(self).buffers@,
//@fn src/react/command_queue.rs impl CobwebCommandQueue append
//@| requires old(self).wf(),
//@| ensures final(self).commands@ == old(self).commands@ + new@,
//@|         final(self).wf(),
//@fn src/react/command_queue.rs impl CobwebCommandQueue _append_and_remove ret=r
//@| requires old(self).wf(),
//@| ensures r@ == old(self).commands@ + new@,
//@|         final(self).commands@.len() == 0,
//@|         final(self).wf(),
//@endimpl

//@impl src/react/command_queue.rs impl Default for CobwebCommandQueue
//@fn src/react/command_queue.rs impl Default for CobwebCommandQueue default ret=r
//@| ensures r.commands@.len() == 0, r.buffers@.len() == 0, r.wf(),
//@endimpl

// ---- property layer (C12): the buffer is a FIFO for any history of push / append / remove / pop_front ---------
// A command pushed earlier is handed out earlier: push;push;pop;pop yields the two in order, for any prefix.
pub proof fn lemma_fifo_two(q: Seq<int>, a: int, b: int)
    ensures ({
        let s = q.push(a).push(b);
        &&& s[q.len() as int] == a
        &&& s[q.len() as int + 1] == b
        &&& s.subrange(0, q.len() as int) == q
    })
{
    let s = q.push(a).push(b);
    assert(s.subrange(0, q.len() as int) =~= q);
}

// remove() followed by append(rest) of a suffix keeps relative order of what was kept (runner's retain+append).
pub proof fn lemma_remove_append_roundtrip(q: Seq<int>, newer: Seq<int>)
    ensures (newer + q).subrange(newer.len() as int, (newer.len() + q.len()) as int) == q
{
    assert((newer + q).subrange(newer.len() as int, (newer.len() + q.len()) as int) =~= q);
}

} // verus!
fn main() {}
