// Unit `react_commands` (C01, C06, C14, C18): the public entry points of ReactCommands (react_commands.rs), verbatim and
// generic: what each call QUEUES.  Contract: every entry point queues exactly one call of the system that implements it -
// broadcast -> schedule_broadcast_reaction::<E>(event); entity_event -> schedule_entity_event_reaction::<E>((entity, event));
// trigger_resource_mutation -> schedule_resource_mutation_reaction::<R>; revoke -> revoke_reactor(token);
// with / on / on_persistent / on_revokable -> ONE spawn_system_command (on*) and ONE register_reactors((triggers, reactor, mode)) with the
// mode the entry point stands for; a token only for Revokable.  (`once` is not opened: nested closures over `&mut World`.)
// insert -> NOTHING when the entity does not exist at call time, else try_insert(React{entity, component}) followed by
// schedule_insertion_reaction::<C>(entity).  (The systems themselves: units `cache`, `revoke`, K.dispatch.*.)
use vstd::prelude::*;
use std::sync::Arc;
verus! {
//@include prelude.inc
//@enum src/react/utils.rs ReactorType
//@struct src/react/utils.rs RevokeToken
//@enum src/react/react_commands.rs ReactorMode
pub trait ReactComponent {}
pub trait ReactResource {}
pub trait ReactionTriggerBundle: Copy {}
pub struct In<T>(pub T);
//@struct src/react/react_component.rs React

pub enum Queued { Syscall { sys: int, input: int }, TryInsert { entity: Entity, bundle: int }, SpawnSystem { id: SystemCommand, system: int } }
pub trait CobwebResult {}
pub trait IntoSystem<I, O, M>: Sized {}
pub uninterp spec fn fresh_system(log: Seq<Queued>) -> SystemCommand;
pub uninterp spec fn sys_id<S>(s: S) -> int;
pub uninterp spec fn enc<I>(i: I) -> int;
// a system function and the input it takes (ties the generic parameters of a system item to the input handed to the syscall,
// the way Bevy's IntoSystem does)
pub struct HasIn; pub struct NoIn;
pub trait SysFn<I, M> {}
impl<I, F: Fn(In<I>)> SysFn<I, HasIn> for F {}
impl<F: Fn()> SysFn<(), NoIn> for F {}
// ---- ASSUMED: Commands / EntityCommands = handles to one command queue ------------------------------------------------
#[verifier::external_body] pub struct CommandsInner<'w> { _p: core::marker::PhantomData<&'w ()> }
pub type Commands<'w, 's> = &'s mut CommandsInner<'w>;
#[verifier::external_body] pub struct EntityCommandsInner { _p: u8 }
pub type EntityCommands<'a> = &'a mut EntityCommandsInner;
impl EntityCommandsInner {
    pub uninterp spec fn entity(&self) -> Entity;
    pub uninterp spec fn log(&self) -> Seq<Queued>;
    // EntityCommands::try_insert(bundle): queues an insertion that does nothing if the entity is gone when it is applied
    #[verifier::external_body]
    pub fn try_insert<B>(&mut self, b: B) -> (r: &mut Self)
        ensures final(self).log() == old(self).log().push(Queued::TryInsert { entity: old(self).entity(), bundle: enc(b) }), final(self).entity() == old(self).entity(),
    { unimplemented!() }
}
impl<'w> CommandsInner<'w> {
    pub uninterp spec fn log(&self) -> Seq<Queued>;
    pub uninterp spec fn alive(&self) -> Set<Entity>;
    // CommandsSyscallExt::syscall_with_validation(input, system, validation): queues ONE command that runs `system` with `input`
    #[verifier::external_body]
    pub fn syscall_with_validation<I, M, S: SysFn<I, M>, V>(&mut self, input: I, sys: S, validation: V)
        ensures final(self).log() == old(self).log().push(Queued::Syscall { sys: sys_id(sys), input: enc(input) }), final(self).alive() == old(self).alive(),
    { unimplemented!() }
    // ReactCommandsExt::spawn_system_command(system): queues the spawn of ONE system-command entity holding `system`, returns its id
    #[verifier::external_body]
    pub fn spawn_system_command<S>(&mut self, system: S) -> (r: SystemCommand)
        ensures r == fresh_system(old(self).log()), final(self).log() == old(self).log().push(Queued::SpawnSystem { id: r, system: enc(system) }), final(self).alive() == old(self).alive(),
    { unimplemented!() }
    #[verifier::external_body]
    pub fn get_entity(&mut self, e: Entity) -> (r: Option<EntityCommands<'_>>)
        ensures r is Some <==> old(self).alive().contains(e),
                r is Some ==> (r->Some_0.entity() == e && r->Some_0.log() == old(self).log() && final(self).log() == final(r->Some_0).log()),
                r is None ==> final(self).log() == old(self).log(),
                final(self).alive() == old(self).alive(),
    { unimplemented!() }
}
// the systems named in the queued calls (only their identity matters here)
#[verifier::external_body] pub struct ReactCache { _p: u8 }
impl ReactCache {
    #[verifier::external_body] pub fn schedule_insertion_reaction<C: ReactComponent>(verif_in: In<Entity>) { unimplemented!() }
    #[verifier::external_body] pub fn schedule_broadcast_reaction<E>(verif_in: In<E>) { unimplemented!() }
    #[verifier::external_body] pub fn schedule_entity_event_reaction<E>(verif_in: In<(Entity, E)>) { unimplemented!() }
    #[verifier::external_body] pub fn schedule_resource_mutation_reaction<R: ReactResource>() { unimplemented!() }
}
#[verifier::external_body] pub fn validate_rc() { unimplemented!() }
#[verifier::external_body] pub fn register_reactors<T: ReactionTriggerBundle>(verif_in: In<(T, SystemCommand, ReactorMode)>) { unimplemented!() }
#[verifier::external_body] pub fn revoke_reactor(verif_in: In<RevokeToken>) { unimplemented!() }
pub uninterp spec fn token_of<T>(sys: SystemCommand, triggers: T) -> RevokeToken;
impl RevokeToken {
    // RevokeToken::new_from: the reactor types of the bundle + the reactor id (utils.rs; closure-based collection, not opened)
    #[verifier::external_body]
    pub fn new_from<T: ReactionTriggerBundle>(sys_command: SystemCommand, triggers: T) -> (r: Self)
        ensures r == token_of(sys_command, triggers), r.id == sys_command,
    { unimplemented!() }
}

/// the ONE queued call that registers `triggers` for reactor `sc` under `mode`
pub open spec fn reg_call<T: ReactionTriggerBundle>(triggers: T, sc: SystemCommand, mode: ReactorMode) -> Queued { Queued::Syscall { sys: sys_id(register_reactors::<T>), input: enc((triggers, sc, mode)) } }
//@struct src/react/react_commands.rs ReactCommands
pub open spec fn one_call<S, I>(before: Seq<Queued>, after: Seq<Queued>, sys: S, input: I) -> bool { after == before.push(Queued::Syscall { sys: sys_id(sys), input: enc(input) }) }
//@impl src/react/react_commands.rs impl ReactCommands
//@fn src/react/react_commands.rs impl ReactCommands insert
//@| ensures old(self).commands.alive().contains(entity) ==> final(self).commands.log() == old(self).commands.log()
//@|             .push(Queued::TryInsert { entity: entity, bundle: enc(React { entity: entity, component: component }) })
//@|             .push(Queued::Syscall { sys: sys_id(ReactCache::schedule_insertion_reaction::<C>), input: enc(entity) }),
//@|         !old(self).commands.alive().contains(entity) ==> final(self).commands.log() == old(self).commands.log(),
//@|         *final(final(self).commands) == *final(old(self).commands),
//@fn src/react/react_commands.rs impl ReactCommands broadcast
//@| ensures one_call(old(self).commands.log(), final(self).commands.log(), ReactCache::schedule_broadcast_reaction::<E>, event), *final(final(self).commands) == *final(old(self).commands),
//@fn src/react/react_commands.rs impl ReactCommands entity_event
//@| ensures one_call(old(self).commands.log(), final(self).commands.log(), ReactCache::schedule_entity_event_reaction::<E>, (entity, event)), *final(final(self).commands) == *final(old(self).commands),
//@fn src/react/react_commands.rs impl ReactCommands trigger_resource_mutation
//@| ensures one_call(old(self).commands.log(), final(self).commands.log(), ReactCache::schedule_resource_mutation_reaction::<R>, ()), *final(final(self).commands) == *final(old(self).commands),
//@fn src/react/react_commands.rs impl ReactCommands revoke
//@| ensures one_call(old(self).commands.log(), final(self).commands.log(), revoke_reactor, token), *final(final(self).commands) == *final(old(self).commands),
// on / on_persistent / on_revokable: ONE system command is spawned from the reactor, then ONE registration of the whole bundle for
// it under the mode the entry point stands for: on -> Cleanup (ref-counted, collected when its last trigger is gone),
// on_persistent -> Persistent (never ref-counted; its id is returned), on_revokable -> Revokable (its token is returned).
//@fn src/react/react_commands.rs impl ReactCommands on
//@| ensures ({ let sc = fresh_system(old(self).commands.log());
//@|     final(self).commands.log() == old(self).commands.log().push(Queued::SpawnSystem { id: sc, system: enc(reactor) }).push(reg_call(triggers, sc, ReactorMode::Cleanup)) }),
//@|     *final(final(self).commands) == *final(old(self).commands),
//@fn src/react/react_commands.rs impl ReactCommands on_persistent ret=r
//@| ensures ({ let sc = fresh_system(old(self).commands.log());
//@|     r == sc && final(self).commands.log() == old(self).commands.log().push(Queued::SpawnSystem { id: sc, system: enc(reactor) }).push(reg_call(triggers, sc, ReactorMode::Persistent)) }),
//@|     *final(final(self).commands) == *final(old(self).commands),
//@fn src/react/react_commands.rs impl ReactCommands on_revokable ret=r
//@| ensures ({ let sc = fresh_system(old(self).commands.log());
//@|     r == token_of(sc, triggers) && final(self).commands.log() == old(self).commands.log().push(Queued::SpawnSystem { id: sc, system: enc(reactor) }).push(reg_call(triggers, sc, ReactorMode::Revokable)) }),
//@|     *final(final(self).commands) == *final(old(self).commands),
//@fn src/react/react_commands.rs impl ReactCommands with ret=r
//@| ensures final(self).commands.log() == old(self).commands.log().push(reg_call(triggers, sys_command, mode)),
//@|         r == (if mode is Revokable { Some(token_of(sys_command, triggers)) } else { None::<RevokeToken> }),
//@|         *final(final(self).commands) == *final(old(self).commands),
//@endimpl

} // verus!
fn main() {}
