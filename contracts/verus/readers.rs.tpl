// Unit `readers` (C03, C04): the get() of the entity-reaction readers and of DespawnEvent, generic in the component type.
// Contract (taken from the property statement): a reader yields the source of the CURRENT reaction iff the tracker is
// reacting AND the reaction kind is the reader's kind AND the component type id is the reader's; otherwise Err.
use vstd::prelude::*;
use std::marker::PhantomData;
verus! {
//@include prelude.inc
//@enum src/react/utils.rs EntityReactionType
//@enum src/react/utils.rs ReactorHandle
//@enum src/react/err.rs CobwebReactError

// ---- ASSUMED stand-ins for Bevy system params: `Res<T>` / `Local<T>` are read through Deref only ----
pub struct Res<'w, T> { pub value: &'w T }
impl<'w, T> core::ops::Deref for Res<'w, T> { type Target = T; fn deref(&self) -> (r: &T) ensures *r == *self.value { self.value } }
pub struct Local<'s, T> { pub value: &'s T }
impl<'s, T> core::ops::Deref for Local<'s, T> { type Target = T; fn deref(&self) -> (r: &T) ensures *r == *self.value { self.value } }
pub trait ReactComponent {}
#[verifier::external_body]
pub fn type_name<T>() -> &'static str { core::any::type_name::<T>() }

//@struct src/react/entity_reaction_readers.rs ReactComponentId
//@impl src/react/entity_reaction_readers.rs impl ReactComponentId
//@fn src/react/entity_reaction_readers.rs impl ReactComponentId id ret=r
//@| ensures r == self.id,
//@endimpl

//@struct src/react/entity_reaction_readers.rs EntityReactionAccessTracker
//@impl src/react/entity_reaction_readers.rs impl EntityReactionAccessTracker
//@fn src/react/entity_reaction_readers.rs impl EntityReactionAccessTracker is_reacting ret=r
//@| ensures r == self.currently_reacting,
//@fn src/react/entity_reaction_readers.rs impl EntityReactionAccessTracker source ret=r
//@| ensures r == self.reaction_source,
//@fn src/react/entity_reaction_readers.rs impl EntityReactionAccessTracker reaction_type ret=r
//@| ensures r == self.reaction_type,
//@endimpl

//@struct src/react/entity_reaction_readers.rs InsertionEvent
//@impl src/react/entity_reaction_readers.rs impl InsertionEvent
//@fn src/react/entity_reaction_readers.rs impl InsertionEvent get ret=r
//@| ensures r is Ok <==> (self.tracker.value.currently_reacting && self.tracker.value.reaction_type == EntityReactionType::Insertion(self.component_id.value.id)),
//@|         r is Ok ==> r->Ok_0 == self.tracker.value.reaction_source,
//@fn src/react/entity_reaction_readers.rs impl InsertionEvent is_empty ret=b
//@| ensures b == !(self.tracker.value.currently_reacting && self.tracker.value.reaction_type == EntityReactionType::Insertion(self.component_id.value.id)),
//@endimpl

//@struct src/react/entity_reaction_readers.rs MutationEvent
//@impl src/react/entity_reaction_readers.rs impl MutationEvent
//@fn src/react/entity_reaction_readers.rs impl MutationEvent get ret=r
//@| ensures r is Ok <==> (self.tracker.value.currently_reacting && self.tracker.value.reaction_type == EntityReactionType::Mutation(self.component_id.value.id)),
//@|         r is Ok ==> r->Ok_0 == self.tracker.value.reaction_source,
//@fn src/react/entity_reaction_readers.rs impl MutationEvent is_empty ret=b
//@| ensures b == !(self.tracker.value.currently_reacting && self.tracker.value.reaction_type == EntityReactionType::Mutation(self.component_id.value.id)),
//@endimpl

//@struct src/react/entity_reaction_readers.rs RemovalEvent
//@impl src/react/entity_reaction_readers.rs impl RemovalEvent
//@fn src/react/entity_reaction_readers.rs impl RemovalEvent get ret=r
//@| ensures r is Ok <==> (self.tracker.value.currently_reacting && self.tracker.value.reaction_type == EntityReactionType::Removal(self.component_id.value.id)),
//@|         r is Ok ==> r->Ok_0 == self.tracker.value.reaction_source,
//@fn src/react/entity_reaction_readers.rs impl RemovalEvent is_empty ret=b
//@| ensures b == !(self.tracker.value.currently_reacting && self.tracker.value.reaction_type == EntityReactionType::Removal(self.component_id.value.id)),
//@endimpl

// ---- DespawnEvent: readable iff a despawn reaction is running; yields that reaction's source ----
//@struct src/react/despawn_reader.rs DespawnAccessTracker
//@impl src/react/despawn_reader.rs impl DespawnAccessTracker
//@fn src/react/despawn_reader.rs impl DespawnAccessTracker is_reacting ret=r
//@| ensures r == self.currently_reacting,
//@fn src/react/despawn_reader.rs impl DespawnAccessTracker source ret=r
//@| ensures r == self.reaction_source,
//@endimpl
//@struct src/react/despawn_reader.rs DespawnEvent
//@impl src/react/despawn_reader.rs impl DespawnEvent
//@fn src/react/despawn_reader.rs impl DespawnEvent get ret=r
//@| ensures r is Ok <==> self.tracker.value.currently_reacting,
//@|         r is Ok ==> r->Ok_0 == self.tracker.value.reaction_source,
//@fn src/react/despawn_reader.rs impl DespawnEvent is_empty ret=b
//@| ensures b == !self.tracker.value.currently_reacting,
//@endimpl


// ---- event payload readers (C03, C04), generic in the payload type ----------------------------------------------------------
// BroadcastEvent / EntityEvent::try_read yield the payload stored on THE data entity of the current event reaction iff the event
// tracker is reacting and that entity carries a payload of the reader's type; SystemEvent::take hands the payload out at most
// once (the second take in the same run finds None => Err) and never outside a system-event run.
pub struct QueryEntityError;
pub trait QData { type Item; }
impl<X: 'static> QData for &'static X { type Item = X; }
impl<X: 'static> QData for &'static mut X { type Item = X; }
#[verifier::external_body]
#[verifier::accept_recursive_types(D)]
pub struct Query<'w, 's, D: QData> { _p: PhantomData<(&'w (), &'s (), D)> }
pub type Mut<'a, T> = &'a mut T;
impl<'w, 's, D: QData> Query<'w, 's, D> {
    /// the components of type D::Item, per entity
    pub uninterp spec fn items(&self) -> Map<Entity, D::Item>;
    #[verifier::external_body]
    pub fn get(&self, e: Entity) -> (r: Result<&D::Item, QueryEntityError>)
        ensures r is Ok <==> self.items().dom().contains(e), r is Ok ==> *r->Ok_0 == self.items()[e] { unimplemented!() }
    #[verifier::external_body]
    pub fn get_mut(&mut self, e: Entity) -> (r: Result<Mut<'_, D::Item>, QueryEntityError>)
        ensures r is Ok <==> old(self).items().dom().contains(e),
                r is Ok ==> (*r->Ok_0 == old(self).items()[e] && final(self).items() == old(self).items().insert(e, *final(r->Ok_0))),
                r is Err ==> final(self).items() == old(self).items() { unimplemented!() }
}
//@struct src/react/event_readers.rs EventAccessTracker
//@impl src/react/event_readers.rs impl EventAccessTracker
//@fn src/react/event_readers.rs impl EventAccessTracker is_reacting ret=r
//@| ensures r == self.currently_reacting,
//@fn src/react/event_readers.rs impl EventAccessTracker data_entity ret=r
//@| ensures r == self.data_entity,
//@endimpl
//@struct src/react/event_readers.rs BroadcastEventData
//@impl src/react/event_readers.rs impl BroadcastEventData
//@fn src/react/event_readers.rs impl BroadcastEventData read ret=r
//@| ensures *r == self.data,
//@endimpl
//@struct src/react/event_readers.rs EntityEventData
//@impl src/react/event_readers.rs impl EntityEventData
//@fn src/react/event_readers.rs impl EntityEventData read ret=r
//@| ensures r.0 == self.entity, *r.1 == self.data,
//@endimpl
//@struct src/react/event_readers.rs BroadcastEvent
//@impl src/react/event_readers.rs impl BroadcastEvent
//@fn src/react/event_readers.rs impl BroadcastEvent try_read ret=r
//@| ensures r is Ok <==> (self.tracker.value.currently_reacting && self.data.items().dom().contains(self.tracker.value.data_entity)),
//@|         r is Ok ==> *r->Ok_0 == self.data.items()[self.tracker.value.data_entity].data,
//@fn src/react/event_readers.rs impl BroadcastEvent is_empty ret=b
//@| ensures b == !(self.tracker.value.currently_reacting && self.data.items().dom().contains(self.tracker.value.data_entity)),
//@endimpl
//@struct src/react/event_readers.rs EntityEvent
//@impl src/react/event_readers.rs impl EntityEvent
//@fn src/react/event_readers.rs impl EntityEvent try_read ret=r
//@| ensures r is Ok <==> (self.tracker.value.currently_reacting && self.data.items().dom().contains(self.tracker.value.data_entity)),
//@|         r is Ok ==> (r->Ok_0.0 == self.data.items()[self.tracker.value.data_entity].entity && *r->Ok_0.1 == self.data.items()[self.tracker.value.data_entity].data),
//@fn src/react/event_readers.rs impl EntityEvent is_empty ret=b
//@| ensures b == !(self.tracker.value.currently_reacting && self.data.items().dom().contains(self.tracker.value.data_entity)),
//@endimpl
//@struct src/react/system_event_reader.rs SystemEventAccessTracker
//@impl src/react/system_event_reader.rs impl SystemEventAccessTracker
//@fn src/react/system_event_reader.rs impl SystemEventAccessTracker is_reacting ret=r
//@| ensures r == self.currently_reacting,
//@fn src/react/system_event_reader.rs impl SystemEventAccessTracker data_entity ret=r
//@| ensures r == self.data_entity,
//@endimpl
//@struct src/react/system_event_reader.rs SystemEventData
//@impl src/react/system_event_reader.rs impl SystemEventData
//@fn src/react/system_event_reader.rs impl SystemEventData take ret=r
//@| ensures r == old(self).data, final(self).data is None,
//@endimpl
//@struct src/react/system_event_reader.rs SystemEvent
//@impl src/react/system_event_reader.rs impl SystemEvent
//@fn src/react/system_event_reader.rs impl SystemEvent take ret=r
//@| ensures ({ let e = old(self).tracker.value.data_entity; let present = old(self).tracker.value.currently_reacting && old(self).data.items().dom().contains(e);
//@|     &&& (r is Ok <==> (present && old(self).data.items()[e].data is Some))
//@|     &&& (r is Ok ==> r->Ok_0 == old(self).data.items()[e].data->Some_0)
//@|     &&& (present ==> final(self).data.items() == old(self).data.items().insert(e, SystemEventData { data: None }))
//@|     &&& (!present ==> final(self).data.items() == old(self).data.items()) }),
//@endimpl

// C03 glue: at most ONE of the three readers of a given component type answers, and none answers outside a reaction.
pub fn check_readers_exclusive<T: ReactComponent>(i: &InsertionEvent<T>, m: &MutationEvent<T>, r: &RemovalEvent<T>)
    requires i.tracker.value == m.tracker.value, m.tracker.value == r.tracker.value,
             i.component_id.value.id == m.component_id.value.id, m.component_id.value.id == r.component_id.value.id,
{
    let a = i.get(); let b = m.get(); let c = r.get();
    assert(!(a is Ok && b is Ok) && !(a is Ok && c is Ok) && !(b is Ok && c is Ok));
    assert(!i.tracker.value.currently_reacting ==> (a is Err && b is Err && c is Err));
}

} // verus!
fn main() {}
