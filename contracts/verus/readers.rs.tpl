// Unit `readers` (C03, C04): the get() of the entity-reaction readers and of DespawnEvent, generic in the component type.
// Contract (taken from the property statement): a reader yields the source of the CURRENT reaction iff the tracker is
// reacting AND the reaction kind is the reader's kind AND the component type id is the reader's; otherwise Err.
use vstd::prelude::*;
use std::marker::PhantomData;
verus! {
//@include prelude.inc
//@enum src/react/utils.rs EntityReactionType
//@enum src/react/utils.rs ReactorHandle
//@enum src/react/err.rs CobwebReactError

// ---- ASSUMED stand-ins for Bevy system params: `Res<T>` / `Local<T>` are read through Deref only ----
pub struct Res<'w, T> { pub value: &'w T }
impl<'w, T> core::ops::Deref for Res<'w, T> { type Target = T; fn deref(&self) -> (r: &T) ensures *r == *self.value { self.value } }
pub struct Local<'s, T> { pub value: &'s T }
impl<'s, T> core::ops::Deref for Local<'s, T> { type Target = T; fn deref(&self) -> (r: &T) ensures *r == *self.value { self.value } }
pub trait ReactComponent {}
#[verifier::external_body]
pub fn type_name<T>() -> &'static str { core::any::type_name::<T>() }

//@struct src/react/entity_reaction_readers.rs ReactComponentId
//@impl src/react/entity_reaction_readers.rs impl ReactComponentId
//@fn src/react/entity_reaction_readers.rs impl ReactComponentId id ret=r
//@| ensures r == self.id,
//@endimpl

//@struct src/react/entity_reaction_readers.rs EntityReactionAccessTracker
//@impl src/react/entity_reaction_readers.rs impl EntityReactionAccessTracker
//@fn src/react/entity_reaction_readers.rs impl EntityReactionAccessTracker is_reacting ret=r
//@| ensures r == self.currently_reacting,
//@fn src/react/entity_reaction_readers.rs impl EntityReactionAccessTracker source ret=r
//@| ensures r == self.reaction_source,
//@fn src/react/entity_reaction_readers.rs impl EntityReactionAccessTracker reaction_type ret=r
//@| ensures r == self.reaction_type,
//@endimpl

//@struct src/react/entity_reaction_readers.rs InsertionEvent
//@impl src/react/entity_reaction_readers.rs impl InsertionEvent
//@fn src/react/entity_reaction_readers.rs impl InsertionEvent get ret=r
//@| ensures r is Ok <==> (self.tracker.value.currently_reacting && self.tracker.value.reaction_type == EntityReactionType::Insertion(self.component_id.value.id)),
//@|         r is Ok ==> r->Ok_0 == self.tracker.value.reaction_source,
//@fn src/react/entity_reaction_readers.rs impl InsertionEvent is_empty ret=b
//@| ensures b == !(self.tracker.value.currently_reacting && self.tracker.value.reaction_type == EntityReactionType::Insertion(self.component_id.value.id)),
//@endimpl

//@struct src/react/entity_reaction_readers.rs MutationEvent
//@impl src/react/entity_reaction_readers.rs impl MutationEvent
//@fn src/react/entity_reaction_readers.rs impl MutationEvent get ret=r
//@| ensures r is Ok <==> (self.tracker.value.currently_reacting && self.tracker.value.reaction_type == EntityReactionType::Mutation(self.component_id.value.id)),
//@|         r is Ok ==> r->Ok_0 == self.tracker.value.reaction_source,
//@fn src/react/entity_reaction_readers.rs impl MutationEvent is_empty ret=b
//@| ensures b == !(self.tracker.value.currently_reacting && self.tracker.value.reaction_type == EntityReactionType::Mutation(self.component_id.value.id)),
//@endimpl

//@struct src/react/entity_reaction_readers.rs RemovalEvent
//@impl src/react/entity_reaction_readers.rs impl RemovalEvent
//@fn src/react/entity_reaction_readers.rs impl RemovalEvent get ret=r
//@| ensures r is Ok <==> (self.tracker.value.currently_reacting && self.tracker.value.reaction_type == EntityReactionType::Removal(self.component_id.value.id)),
//@|         r is Ok ==> r->Ok_0 == self.tracker.value.reaction_source,
//@fn src/react/entity_reaction_readers.rs impl RemovalEvent is_empty ret=b
//@| ensures b == !(self.tracker.value.currently_reacting && self.tracker.value.reaction_type == EntityReactionType::Removal(self.component_id.value.id)),
//@endimpl

// ---- DespawnEvent: readable iff a despawn reaction is running; yields that reaction's source ----
//@struct src/react/despawn_reader.rs DespawnAccessTracker
//@impl src/react/despawn_reader.rs impl DespawnAccessTracker
//@fn src/react/despawn_reader.rs impl DespawnAccessTracker is_reacting ret=r
//@| ensures r == self.currently_reacting,
//@fn src/react/despawn_reader.rs impl DespawnAccessTracker source ret=r
//@| ensures r == self.reaction_source,
//@endimpl
//@struct src/react/despawn_reader.rs DespawnEvent
//@impl src/react/despawn_reader.rs impl DespawnEvent
//@fn src/react/despawn_reader.rs impl DespawnEvent get ret=r
//@| ensures r is Ok <==> self.tracker.value.currently_reacting,
//@|         r is Ok ==> r->Ok_0 == self.tracker.value.reaction_source,
//@fn src/react/despawn_reader.rs impl DespawnEvent is_empty ret=b
//@| ensures b == !self.tracker.value.currently_reacting,
//@endimpl

// C03 glue: at most ONE of the three readers of a given component type answers, and none answers outside a reaction.
pub fn check_readers_exclusive<T: ReactComponent>(i: &InsertionEvent<T>, m: &MutationEvent<T>, r: &RemovalEvent<T>)
    requires i.tracker.value == m.tracker.value, m.tracker.value == r.tracker.value,
             i.component_id.value.id == m.component_id.value.id, m.component_id.value.id == r.component_id.value.id,
{
    let a = i.get(); let b = m.get(); let c = r.get();
    assert(!(a is Ok && b is Ok) && !(a is Ok && c is Ok) && !(b is Ok && c is Ok));
    assert(!i.tracker.value.currently_reacting ==> (a is Err && b is Err && c is Err));
}

} // verus!
fn main() {}
