// Unit `removal_collect` (C08): collect_component_removals (react_cache.rs) - the system every RemovalChecker runs when it is
// polled; verbatim modulo extraction rule 29 (`ITER.for_each(|p| EXPR);` read as `for p in ITER { EXPR; }`) and rule 8 (`In(..)`).
// Contract: what a poll of a checker returns is EXACTLY what Bevy's removal reader reports as not yet read - every reported entity
// once, in report order, nothing filtered out, nothing added - whatever the recycled buffer handed in contained (a buffer that
// is not cleared would react a second time to the removals of the previous checker / poll).  Any number of reports.
// ASSUMED: `RemovedComponents::read()` yields the unread removal events front to back (Bevy; the reader's cursor and detection
// itself are Bevy's); `Vec` = the sequence stand-in of vec_prelude.inc plus `clear`.
use vstd::prelude::*;
verus! {
//@include prelude.inc
//@include vec_prelude.inc
impl<T> Vec<T> {
    // Vec::clear(): removes every element (std)
    #[verifier::external_body]
    pub fn clear(&mut self) ensures final(self)@ == Seq::<T>::empty() { unimplemented!() }
}
impl Vec<Entity> {
    // Vec::extend(iter): appends every item the iterator yields, in order (std) - so that the natural rewrite of the `for_each(push)` statement
    // is still inside the subset and is checked against the same contract
    #[verifier::external_body]
    pub fn extend(&mut self, it: RemovedIter<'_>) ensures final(self)@ == old(self)@ + it.elems().skip(it.pos() as int) { unimplemented!() }
}
pub struct In<T>(pub T);
pub trait ReactComponent: Sized {}
#[verifier::external_body] #[verifier::accept_recursive_types(C)] pub struct React<C> { _p: core::marker::PhantomData<C> }
#[verifier::external_body] #[verifier::accept_recursive_types(T)] pub struct RemovedComponents<T> { _p: core::marker::PhantomData<T> }
// the iterator `RemovedComponents::read()` hands out: the unread removal events, front to back
#[verifier::external_body] pub struct RemovedIter<'a> { _p: core::marker::PhantomData<&'a u8> }
impl<'a> RemovedIter<'a> { pub uninterp spec fn elems(&self) -> Seq<Entity>; pub uninterp spec fn pos(&self) -> nat; }
impl<'a> RemovedIter<'a> {
    // Iterator::filter(f): the items for which f returns true, in order (std).  Nothing is known about an un-annotated predicate, so a body
    // that filters the reports cannot establish `all unread reports` - which is the point: the property says EVERY removal is reacted to.
    #[verifier::external_body]
    pub fn filter<F: FnMut(&Entity) -> bool>(self, f: F) -> (r: RemovedIter<'a>)
        ensures r.pos() == 0, r.elems().len() <= self.elems().len() - self.pos(),
                (forall|x: Entity| call_ensures(f, (&x,), true) && !call_ensures(f, (&x,), false)) ==> r.elems() == self.elems().skip(self.pos() as int),
    { unimplemented!() }
}
// Bevy query stand-ins, so that a body that consults the world is still inside the subset (reads only)
#[verifier::external_body] #[verifier::accept_recursive_types(D)] #[verifier::accept_recursive_types(F)] pub struct Query<D, F = ()> { _p: core::marker::PhantomData<(D, F)> }
#[verifier::external_body] #[verifier::accept_recursive_types(T)] pub struct With<T> { _p: core::marker::PhantomData<T> }
#[verifier::external_body] #[verifier::accept_recursive_types(T)] pub struct Without<T> { _p: core::marker::PhantomData<T> }
impl<D, F> Query<D, F> {
    pub uninterp spec fn matches(&self, e: Entity) -> bool;
    #[verifier::external_body]
    pub fn contains(&self, e: Entity) -> (b: bool) ensures b == self.matches(e) { unimplemented!() }
}
impl<'a> Iterator for RemovedIter<'a> { type Item = Entity; #[verifier::external_body] fn next(&mut self) -> (r: Option<Entity>) { unimplemented!() } }
impl<'a> vstd::std_specs::iter::IteratorSpecImpl for RemovedIter<'a> {
    open spec fn obeys_prophetic_iter_laws(&self) -> bool { true }
    open spec fn remaining(&self) -> Seq<Entity> { self.elems().skip(self.pos() as int) }
    open spec fn will_return_none(&self) -> bool { true }
    open spec fn decrease(&self) -> Option<nat> { Some((self.elems().len() - self.pos()) as nat) }
    open spec fn peek(&self, index: int) -> Option<Entity> { if 0 <= index < self.elems().len() - self.pos() { Some(self.elems()[self.pos() + index]) } else { None } }
}
impl<T> RemovedComponents<T> {
    /// the removal events this reader has not read yet, oldest first (Bevy)
    pub uninterp spec fn unread(&self) -> Seq<Entity>;
    #[verifier::external_body]
    pub fn read(&mut self) -> (r: RemovedIter<'_>) ensures r.elems() == old(self).unread(), r.pos() == 0 { unimplemented!() }
}

//@fn src/react/react_cache.rs - collect_component_removals ret=r
//@| ensures r@ == removed.unread(),
//@foreach? removed.read()
//@before for entity in | let ghost verif_un = removed.unread();
//@loopvar 1 it
//@loop 1 | invariant it.seq() == verif_un, buffer@ == verif_un.take(it.index@ as int),
//@loopbody 1 | assert(verif_un.take(it.index@ as int).push(entity) =~= verif_un.take(it.index@ as int + 1));
//@loopafter 1 | assert(verif_un.take(verif_un.len() as int) =~= verif_un);

} // verus!
fn main() {}
