// Unit `removal_dispatch` (C08, C01): ReactCache::schedule_removal_reactions (react_cache.rs), verbatim modulo the stated
// normalizations (rule 12 / 12b for `continue` in for-loops, rule 21 for the `|| Vec::default()` thunk), for ANY number of removal
// checkers, ANY number of reported entities and lists of ANY length.
// Contract: the checkers are polled in table order, each exactly once; for the entities a checker reports - in report order - the
// queued commands are exactly one EntityReaction(Removal(component type of THAT checker)) per entity-scoped registration of that
// kind on the reported entity (in list order) followed by one per type-wide removal registration of that component type (in list
// order), each naming the reported entity; nothing for a checker that reports nothing; nothing else is queued.  Stated as: the
// world on return is `run(world on entry, checkers, buffer, component table)`, a fold that threads the world through the polls.
// ASSUMED: what a checker reports (`call_out`) and what polling does to the world (`call_eff`) are uninterpreted - detection is
// Bevy's RemovedComponents; polling and queueing do not touch the per-entity registration lists (axioms below); `Vec` = the
// sequence stand-in (with `Default` and `&mut` iteration), HashMap = finite partial map; schedule_entity_reaction_impl and
// EntityReactors::iter_rtype as in unit `dispatch`.
use vstd::prelude::*;
verus! {
//@include prelude.inc
//@enum src/react/utils.rs EntityReactionType
//@enum src/react/utils.rs ReactorHandle
//@impl src/react/utils.rs impl ReactorHandle
//@fn src/react/utils.rs impl ReactorHandle sys_command ret=r
//@| ensures r == self.sys(),
//@endimpl
impl ReactorHandle {
    pub open spec fn sys(&self) -> SystemCommand { match *self { ReactorHandle::Persistent(s) => s, ReactorHandle::AutoDespawn(sig) => SystemCommand(sig.spec_entity()) } }
}
//@enum src/react/commands.rs ReactionCommand
//@include vec_prelude.inc
// Vec::default() is the empty vector (std)
impl<T> Default for Vec<T> { #[verifier::external_body] fn default() -> (r: Self) ensures r@ == Seq::<T>::empty() { unimplemented!() } }
// `for x in &mut v`: yields &mut v[i] for i = 0..len
#[verifier::external_body]
#[verifier::reject_recursive_types(T)]
pub struct VIterMut<'a, T> { _p: core::marker::PhantomData<&'a mut T> }
impl<'a, T> VIterMut<'a, T> { pub uninterp spec fn elems(&self) -> Seq<T>; pub uninterp spec fn pos(&self) -> nat; }
impl<'a, T> Iterator for VIterMut<'a, T> { type Item = &'a mut T; #[verifier::external_body] fn next(&mut self) -> (r: Option<&'a mut T>) { unimplemented!() } }
impl<'a, T> vstd::std_specs::iter::IteratorSpecImpl for VIterMut<'a, T> {
    open spec fn obeys_prophetic_iter_laws(&self) -> bool { true }
    uninterp spec fn remaining(&self) -> Seq<&'a mut T>;
    open spec fn will_return_none(&self) -> bool { true }
    open spec fn decrease(&self) -> Option<nat> { Some((self.elems().len() - self.pos()) as nat) }
    uninterp spec fn peek(&self, index: int) -> Option<&'a mut T>;
}
// the items are the vector's elements, in order (values on entry to each step)
pub broadcast axiom fn axiom_iter_mut_remaining<'a, T>(it: VIterMut<'a, T>)
    ensures (#[trigger] vstd::std_specs::iter::IteratorSpec::remaining(&it)).len() == it.elems().len() - it.pos(),
            forall|k: int| 0 <= k < it.elems().len() - it.pos() ==> *(#[trigger] vstd::std_specs::iter::IteratorSpec::remaining(&it)[k]) == it.elems()[it.pos() + k];
impl<'a, T> IntoIterator for &'a mut Vec<T> {
    type Item = &'a mut T; type IntoIter = VIterMut<'a, T>;
    #[verifier::external_body]
    fn into_iter(self) -> (r: VIterMut<'a, T>) ensures r.elems() == old(self)@, r.pos() == 0 { unimplemented!() }
}
pub assume_specification<T: core::default::Default> [core::mem::take::<T>] (dest: &mut T) -> (r: T) ensures r == *old(dest);
#[verifier::external_body]
#[verifier::reject_recursive_types(K)]
#[verifier::reject_recursive_types(V)]
pub struct HashMap<K, V> { _k: core::marker::PhantomData<(K, V)> }
impl<K, V> HashMap<K, V> {
    pub uninterp spec fn view(&self) -> Map<K, V>;
    #[verifier::external_body]
    pub fn get(&self, k: &K) -> (r: Option<&V>) ensures r == (if self.view().dom().contains(*k) { Some(&self.view()[*k]) } else { None::<&V> }) { unimplemented!() }
}
pub type Mut<'a, T> = &'a mut T;
#[verifier::external_body] pub struct EntityReactors { _p: u8 }
impl EntityReactors { pub uninterp spec fn view(&self) -> Seq<(EntityReactionType, SystemCommand)>; }
pub open spec fn rt_ids(v: Seq<(EntityReactionType, SystemCommand)>, rt: EntityReactionType) -> Seq<SystemCommand> {
    v.filter(|x: (EntityReactionType, SystemCommand)| x.0 == rt).map_values(|x: (EntityReactionType, SystemCommand)| x.1)
}
pub open spec fn scoped_cmds(ids: Seq<SystemCommand>, src: Entity, rt: EntityReactionType) -> Seq<ReactionCommand> {
    ids.map_values(|s: SystemCommand| ReactionCommand::EntityReaction { reaction_source: src, reaction_type: rt, reactor: s })
}
pub open spec fn wide_cmds(hs: Seq<ReactorHandle>, src: Entity, rt: EntityReactionType) -> Seq<ReactionCommand> {
    hs.map_values(|h: ReactorHandle| ReactionCommand::EntityReaction { reaction_source: src, reaction_type: rt, reactor: h.sys() })
}
// PROVED on the verbatim body in unit `dispatch` (same clause)
//@extern src/react/react_cache.rs - schedule_entity_reaction_impl
//@| ensures final(buffer)@ == old(buffer)@ + (if reaction_type is Event { Seq::<ReactionCommand>::empty() } else { scoped_cmds(rt_ids(entity_reactors.view(), reaction_type), reaction_source, reaction_type) }),

// ---- ASSUMED World contract ----------------------------------------------------------------------------------------------------
#[verifier::external_body] pub struct World { _p: u8 }
#[verifier::external_body] pub struct CommandsInner { _p: u8 }
pub type Commands<'w, 's> = &'s mut CommandsInner;
pub uninterp spec fn queue_eff(w: World, c: ReactionCommand) -> World;
/// the world after queueing `cs` one after the other
pub open spec fn queue_all(w: World, cs: Seq<ReactionCommand>) -> World decreases cs.len() {
    if cs.len() == 0 { w } else { queue_all(queue_eff(w, cs[0]), cs.skip(1)) }
}
impl CommandsInner {
    pub uninterp spec fn base(&self) -> World;
    pub uninterp spec fn pending(&self) -> Seq<ReactionCommand>;
    #[verifier::external_body]
    pub fn queue(&mut self, c: ReactionCommand) ensures final(self).pending() == old(self).pending().push(c), final(self).base() == old(self).base() { unimplemented!() }
}
impl World {
    /// the per-entity registration lists (EntityReactors components)
    pub uninterp spec fn lists(&self) -> Map<Entity, EntityReactors>;
    // World::commands(): a handle to the world's own command queue; what is queued through it is queued on the world
    #[verifier::external_body]
    pub fn commands(&mut self) -> (r: Commands<'_, '_>)
        ensures r.base() == *old(self), r.pending().len() == 0, *final(self) == queue_all(final(r).base(), final(r).pending()) { unimplemented!() }
    // World::get_mut::<EntityReactors>(e): the entity's registration list, if it has one
    #[verifier::external_body]
    pub fn get_mut<C>(&mut self, e: Entity) -> (r: Option<Mut<'_, EntityReactors>>)
        ensures r is Some <==> old(self).lists().dom().contains(e),
                r is Some ==> *r->Some_0 == old(self).lists()[e],
                r is None ==> *final(self) == *old(self),
                r is Some ==> (*final(r->Some_0) == *r->Some_0 ==> *final(self) == *old(self)),
    { unimplemented!() }
}
// queueing a command does not touch the registration lists
pub broadcast axiom fn axiom_queue_lists(w: World, c: ReactionCommand) ensures (#[trigger] queue_eff(w, c)).lists() == w.lists();
#[verifier::external_body] #[verifier::accept_recursive_types(T)] #[verifier::accept_recursive_types(I)] #[verifier::accept_recursive_types(O)]
pub struct SysCall<T, I, O> { _p: core::marker::PhantomData<(T, I, O)> }
pub uninterp spec fn call_out<T, I, O>(w: World, c: SysCall<T, I, O>, i: I) -> O;
pub uninterp spec fn call_eff<T, I, O>(w: World, c: SysCall<T, I, O>, i: I) -> World;
impl<T, I, O> SysCall<T, I, O> {
    // SysCall::call: runs the boxed system (here: collect_component_removals for one component type) - uninterpreted
    #[verifier::external_body]
    pub fn call(&self, world: &mut World, in_val: I) -> (r: O)
        ensures r == call_out(*old(world), *self, in_val), *final(world) == call_eff(*old(world), *self, in_val) { unimplemented!() }
}
// polling for removals does not touch the registration lists
pub broadcast axiom fn axiom_call_lists<T, I, O>(w: World, c: SysCall<T, I, O>, i: I) ensures (#[trigger] call_eff(w, c, i)).lists() == w.lists();
//@struct src/react/react_cache.rs RemovalChecker
//@struct src/react/react_cache.rs ComponentReactors
// the parts of ReactCache this function touches
pub struct ReactCache { pub reaction_commands_buffer: Vec<ReactionCommand>, pub component_reactors: HashMap<TypeId, ComponentReactors>, pub removal_checkers: Vec<RemovalChecker>, pub removal_buffer: Option<Vec<Entity>> }

// ---- specification ---------------------------------------------------------------------------------------------------------
pub open spec fn wide_of(comp: Map<TypeId, ComponentReactors>, t: TypeId) -> Seq<ReactorHandle> { if comp.dom().contains(t) { comp[t].removal_callbacks@ } else { Seq::empty() } }
pub open spec fn scoped_of(lists: Map<Entity, EntityReactors>, e: Entity, rt: EntityReactionType) -> Seq<ReactionCommand> {
    if lists.dom().contains(e) { scoped_cmds(rt_ids(lists[e].view(), rt), e, rt) } else { Seq::empty() }
}
/// the world after reacting to the removal of component type `t` from entity `e`
pub open spec fn ent_world(w: World, e: Entity, t: TypeId, comp: Map<TypeId, ComponentReactors>) -> World {
    let rt = EntityReactionType::Removal(t);
    queue_all(queue_all(w, scoped_of(w.lists(), e, rt)), wide_cmds(wide_of(comp, t), e, rt))
}
/// ... and to the removals of all reported entities, in report order
pub open spec fn buf_world(w: World, b: Seq<Entity>, t: TypeId, comp: Map<TypeId, ComponentReactors>) -> World decreases b.len() {
    if b.len() == 0 { w } else { buf_world(ent_world(w, b[0], t, comp), b.skip(1), t, comp) }
}
/// the whole poll: every checker in table order, the buffer handed from one to the next
pub open spec fn run(w: World, cs: Seq<RemovalChecker>, buf: Vec<Entity>, comp: Map<TypeId, ComponentReactors>) -> World decreases cs.len() {
    if cs.len() == 0 { w } else {
        let out = call_out(w, cs[0].checker, buf); let w1 = call_eff(w, cs[0].checker, buf);
        run(buf_world(w1, out@, cs[0].component_id, comp), cs.skip(1), out, comp)
    }
}
pub open spec fn start_buf(c: ReactCache) -> Seq<Entity> { match c.removal_buffer { Some(b) => b@, None => Seq::empty() } }

impl ReactCache {
//@fn src/react/react_cache.rs impl ReactCache schedule_removal_reactions
//@| requires old(self).reaction_commands_buffer@.len() == 0,
//@| ensures exists|b0: Vec<Entity>| b0@ == start_buf(*old(self)) && #[trigger] run(*old(world), old(self).removal_checkers@, b0, old(self).component_reactors.view()) == *final(world),
//@|         final(self).reaction_commands_buffer@.len() == 0, final(self).component_reactors.view() == old(self).component_reactors.view(),
//@thunk || Vec::default() | vec_default_thunk | <T> | ::<Entity> | Vec<T>
//@lift| ensures r@ == Seq::<T>::empty(),
//@continue_to_else 1
//@letelse_continue 2
//@ghost | broadcast use axiom_queue_lists, axiom_call_lists, axiom_iter_mut_remaining;
//@before for checker in | let ghost verif_w0 = *world; let ghost verif_b0 = buffer; let ghost verif_cs = self.removal_checkers@; let ghost verif_comp = self.component_reactors.view(); assert(verif_cs.skip(0) =~= verif_cs);
//@loopvar 1 it1
//@loop 1 | invariant it1.seq().len() == verif_cs.len(), forall|k: int| 0 <= k < verif_cs.len() ==> *(#[trigger] it1.seq()[k]) == verif_cs[k],
//@loop 1 |     run(*world, verif_cs.skip(it1.index@ as int), buffer, verif_comp) == run(verif_w0, verif_cs, verif_b0, verif_comp),
//@loop 1 |     commands_buff@.len() == 0, self.component_reactors.view() == verif_comp,
//@loopbody 1 | let ghost verif_wb = *world; let ghost verif_bb = buffer; let ghost verif_c = *checker; let ghost verif_m = it1.index@ as int;
//@loopbody 1 | assert(verif_c == verif_cs[verif_m]); assert(verif_cs.skip(verif_m)[0] == verif_c); assert(verif_cs.skip(verif_m).skip(1) =~= verif_cs.skip(verif_m + 1));
//@after buffer = checker.checker.call | let ghost verif_w1 = *world; let ghost verif_out = buffer; assert(verif_out@.skip(0) =~= verif_out@);
//@loopvar 2 it2
//@loop 2 | invariant it2.seq().len() == verif_out@.len(), forall|k: int| 0 <= k < verif_out@.len() ==> *(#[trigger] it2.seq()[k]) == verif_out@[k],
//@loop 2 |     buf_world(*world, verif_out@.skip(it2.index@ as int), verif_c.component_id, verif_comp) == buf_world(verif_w1, verif_out@, verif_c.component_id, verif_comp),
//@loop 2 |     commands_buff@.len() == 0, rtype == EntityReactionType::Removal(verif_c.component_id), self.component_reactors.view() == verif_comp, checker.component_id == verif_c.component_id,
//@loopbody 2 | let ghost verif_we = *world; let ghost verif_k = it2.index@ as int;
//@loopbody 2 | assert(verif_out@.skip(verif_k)[0] == *entity); assert(verif_out@.skip(verif_k).skip(1) =~= verif_out@.skip(verif_k + 1));
//@before for command in | let ghost verif_sc = commands_buff@; assert(*world == verif_we); assert(verif_sc =~= scoped_of(verif_we.lists(), *entity, rtype)); assert(verif_sc.skip(0) =~= verif_sc);
//@loopvar 3 it3
//@loop 3 | invariant it3.seq() =~= verif_sc, queue_all(*world, verif_sc.skip(it3.index@ as int)) == queue_all(verif_we, verif_sc),
//@loopbody 3 | assert(verif_sc.skip(it3.index@ as int)[0] == command); assert(verif_sc.skip(it3.index@ as int).skip(1) =~= verif_sc.skip(it3.index@ as int + 1)); reveal_with_fuel(queue_all, 3);
//@loopafter 3 | assert(verif_sc.skip(verif_sc.len() as int) =~= Seq::empty()); assert(*world == queue_all(verif_we, verif_sc)); let ghost verif_wm = *world;
//@before for handle in | let ghost verif_wide = reactors.removal_callbacks@; let ghost verif_wc = wide_cmds(verif_wide, *entity, rtype); assert(verif_wc.skip(0) =~= verif_wc); assert(verif_wc.len() == verif_wide.len());
//@loopvar 4 it4
//@loop 4 | invariant it4.seq().len() == verif_wide.len(), forall|k: int| 0 <= k < verif_wide.len() ==> *(#[trigger] it4.seq()[k]) == verif_wide[k],
//@loop 4 |     queue_all(*world, verif_wc.skip(it4.index@ as int)) == queue_all(verif_wm, verif_wc), verif_wc.len() == verif_wide.len(), verif_wc == wide_cmds(verif_wide, *entity, rtype),
//@loopbody 4 | assert(verif_wc.skip(it4.index@ as int)[0] == verif_wc[it4.index@ as int]); assert(verif_wc.skip(it4.index@ as int).skip(1) =~= verif_wc.skip(it4.index@ as int + 1)); reveal_with_fuel(queue_all, 3);
//@loopafter 4 | assert(verif_wc.skip(verif_wc.len() as int) =~= Seq::empty()); assert(*world == queue_all(verif_wm, verif_wc));
//@loopend 2 | assert(*world == ent_world(verif_we, *entity, verif_c.component_id, verif_comp));
//@loopafter 2 | assert(verif_out@.skip(verif_out@.len() as int) =~= Seq::empty()); assert(*world == buf_world(verif_w1, verif_out@, verif_c.component_id, verif_comp));
}

} // verus!
fn main() {}
