// Unit `revoke` (C06, C18): revoke_reactor / revoke_entity_reactor (react_commands.rs) - the walk over a RevokeToken.
// Contract: EVERY element of the token is processed, in order, each by exactly the revocation its kind names, with the
// token's id - entity-scoped kinds on the EntityReactors of THAT entity (skipped, not aborted, when the entity is gone
// or has no list), type-wide kinds on the table of THAT kind and key.  Tokens of any length.
// The per-table revocations themselves are ASSUMED here (uninterpreted effects); their contracts are discharged on the
// real functions by Kani units K.cache.revoke.* and K.entity_reactors.*.
use vstd::prelude::*;
use std::sync::Arc;
verus! {
//@include prelude.inc
//@enum src/react/utils.rs EntityReactionType
//@enum src/react/utils.rs ReactorType
//@struct src/react/utils.rs RevokeToken
pub struct In<T>(pub T);
pub type Mut<'a, T> = &'a mut T;
pub type ResMut<'a, T> = &'a mut T;

// ---- ASSUMED: per-entity list and its query -------------------------------------------------------------------
#[verifier::external_body] pub struct EntityReactors { _p: u8 }
pub uninterp spec fn er_remove_eff(er: EntityReactors, rtype: EntityReactionType, id: SystemCommand) -> EntityReactors;
//@impl src/react/utils.rs impl EntityReactors
//@extern src/react/utils.rs impl EntityReactors remove
//@| ensures *final(self) == er_remove_eff(*old(self), rtype, reactor_id),
//@endimpl
pub struct QueryEntityError;
// Query<D>: a handle onto the world's components, i.e. `&mut` to that state (as Commands is `&mut` to a queue).
#[verifier::external_body]
#[verifier::reject_recursive_types(D)]
pub struct QueryInner<D> { _p: core::marker::PhantomData<D> }
pub type Query<'w, 's, D> = &'s mut QueryInner<D>;
impl<D> QueryInner<D> {
    /// entities that are alive and carry an EntityReactors component, with its value
    pub uninterp spec fn view(&self) -> Map<Entity, EntityReactors>;
    #[verifier::external_body]
    pub fn get_mut(&mut self, e: Entity) -> (r: Result<Mut<'_, EntityReactors>, QueryEntityError>)
        ensures r is Ok <==> old(self).view().dom().contains(e),
                r is Ok ==> (*r->Ok_0 == old(self).view()[e] && final(self).view() == old(self).view().insert(e, *final(r->Ok_0))),
                r is Err ==> final(self).view() == old(self).view(),
    { unimplemented!() }
}
// ---- ASSUMED: the cache tables (effects only) ---------------------------------------------------------------------
#[verifier::external_body] pub struct ReactCache { _p: u8 }
pub uninterp spec fn c_component(c: ReactCache, rtype: EntityReactionType, id: SystemCommand) -> ReactCache;
pub uninterp spec fn c_any_entity_event(c: ReactCache, key: TypeId, id: SystemCommand) -> ReactCache;
pub uninterp spec fn c_resource(c: ReactCache, key: TypeId, id: SystemCommand) -> ReactCache;
pub uninterp spec fn c_broadcast(c: ReactCache, key: TypeId, id: SystemCommand) -> ReactCache;
pub uninterp spec fn c_despawn(c: ReactCache, key: Entity, id: SystemCommand) -> ReactCache;
//@impl src/react/react_cache.rs impl ReactCache
//@extern src/react/react_cache.rs impl ReactCache revoke_component_reactor
//@| ensures *final(self) == c_component(*old(self), rtype, reactor_id),
//@extern src/react/react_cache.rs impl ReactCache revoke_any_entity_event_reactor
//@| ensures *final(self) == c_any_entity_event(*old(self), event_id, reactor_id),
//@extern src/react/react_cache.rs impl ReactCache revoke_resource_mutation_reactor
//@| ensures *final(self) == c_resource(*old(self), resource_id, reactor_id),
//@extern src/react/react_cache.rs impl ReactCache revoke_broadcast_reactor
//@| ensures *final(self) == c_broadcast(*old(self), event_id, reactor_id),
//@extern src/react/react_cache.rs impl ReactCache revoke_despawn_reactor
//@| ensures *final(self) == c_despawn(*old(self), entity, reactor_id),
//@endimpl

// ---- the specification: one step per token element, folded over the token ------------------------------------------
pub open spec fn q_step(q: Map<Entity, EntityReactors>, e: Entity, rtype: EntityReactionType, id: SystemCommand) -> Map<Entity, EntityReactors> {
    if q.dom().contains(e) { q.insert(e, er_remove_eff(q[e], rtype, id)) } else { q }
}
pub open spec fn step(st: (ReactCache, Map<Entity, EntityReactors>), rt: ReactorType, id: SystemCommand) -> (ReactCache, Map<Entity, EntityReactors>) {
    match rt {
        ReactorType::EntityInsertion(e, t) => (st.0, q_step(st.1, e, EntityReactionType::Insertion(t), id)),
        ReactorType::EntityMutation(e, t) => (st.0, q_step(st.1, e, EntityReactionType::Mutation(t), id)),
        ReactorType::EntityRemoval(e, t) => (st.0, q_step(st.1, e, EntityReactionType::Removal(t), id)),
        ReactorType::EntityEvent(e, t) => (st.0, q_step(st.1, e, EntityReactionType::Event(t), id)),
        ReactorType::AnyEntityEvent(t) => (c_any_entity_event(st.0, t, id), st.1),
        ReactorType::ComponentInsertion(t) => (c_component(st.0, EntityReactionType::Insertion(t), id), st.1),
        ReactorType::ComponentMutation(t) => (c_component(st.0, EntityReactionType::Mutation(t), id), st.1),
        ReactorType::ComponentRemoval(t) => (c_component(st.0, EntityReactionType::Removal(t), id), st.1),
        ReactorType::ResourceMutation(t) => (c_resource(st.0, t, id), st.1),
        ReactorType::Broadcast(t) => (c_broadcast(st.0, t, id), st.1),
        ReactorType::Despawn(e) => (c_despawn(st.0, e, id), st.1),
    }
}
/// the state after the first n elements of the token have been processed, in order
pub open spec fn walk(st: (ReactCache, Map<Entity, EntityReactors>), toks: Seq<ReactorType>, n: int, id: SystemCommand) -> (ReactCache, Map<Entity, EntityReactors>)
    decreases n
{ if n <= 0 { st } else { step(walk(st, toks, n - 1, id), toks[n - 1], id) } }

//@fn? src/react/react_commands.rs - revoke_entity_reactor
//@| ensures (*final(reactors)).view() == q_step((*old(reactors)).view(), entity, rtype, reactor_id), *final(*final(reactors)) == *final(*old(reactors)),
//@fn src/react/react_commands.rs - revoke_reactor
//@| ensures (*final(cache), final(reactors).view()) == walk((*old(cache), old(reactors).view()), verif_in.0.reactors@, verif_in.0.reactors@.len() as int, verif_in.0.id),
//@loopvar 1 it
//@loop 1 | invariant (*cache, reactors.view()) == walk((*old(cache), old(reactors).view()), token.reactors@, it.index@ as int, token.id), id == token.id, token == verif_in.0, *final(reactors) == *final(old(reactors)), *final(cache) == *final(old(cache)),

} // verus!
fn main() {}
