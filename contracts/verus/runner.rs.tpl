// Unit `runner` (C05, C18, C03, C13; function-level facts behind C02 / C11): syscommand_runner (syscommand_runner.rs), verbatim
// EXCEPT for one statement: `buffered_syscommands.retain(|buffered| { .. syscommand_runner(world, ..) .. })` - a closure that
// captures `&mut World` and recurses is outside Verus' subset.  That ONE statement is replaced (extraction rule 11,
// //@dropstmt) by a call to the uninterpreted effect `replay_matching`; what the replay does is therefore NOT verified
// (order of replay, which cleanup a replayed command gets: C09 / C12-runner, not applicable).  Everything else is the repo's.
//
// Contract (each clause is a statement of a listed property about ONE call):
//  A. a command whose target cannot run now - entity gone, storage component missing, or callback taken while this is the
//     root call - goes through cleanup_on_abort EXACTLY once, after the entry cleanup (gc, poll), and the runner does nothing
//     else: its parked metadata is consumed and its payload released (C03, C05, C18), no system runs (C18);
//  B. a command whose callback is taken while this is NOT the root call is postponed: appended to the buffer, nothing else
//     (no cleanup yet: its metadata must stay parked) (C02-function level, C12);
//  E. (program-point obligation) on EVERY level of the tree, after the system ran and its garbage was collected, removals and
//     despawns are polled before any postponed command is replayed and before the call returns (C07/C08 at function level: a
//     despawn caused by the run - or by collecting the run's garbage - is turned into reactions inside the same tree);
//  F. (program-point obligation, C13) after the run and its garbage collection: if the target still exists with its storage component,
//     that component holds exactly THE callback that just ran (as the run left it) - not a fresh one, not none;
//  G. (ghost-state obligation on EVERY exit, C13) the runner never returns while it holds a callback it took out of the target's
//     storage: between the take and the reinsertion block there is no exit (an exit there would drop the system's persistent state);
//  C. when the root call (counter == 0 on entry) returns after running its system, the buffer is empty and the counter is
//     0 again (C11-function level).
// Termination of the discard loop is not verified (cleanup_on_abort is an uninterpreted effect).
use vstd::prelude::*;
use std::collections::VecDeque;
verus! {
//@include prelude.inc
pub assume_specification<T> [core::mem::replace::<T>] (dest: &mut T, src: T) -> (r: T) ensures *final(dest) == src, r == *old(dest);
pub assume_specification<T> [core::mem::drop::<T>] (t: T);
pub type Mut<'a, T> = &'a mut T;

// ---- opaque pieces: fn-pointer setup/cleanup, boxed callback ------------------------------------------------------------
#[verifier::external_body] #[derive(Copy, Clone, Debug)] pub struct SystemCommandSetup { _p: u8 }
#[verifier::external_body] #[derive(Copy, Clone, Debug)] pub struct SystemCommandCleanup { _p: u8 }
#[verifier::external_body] pub struct SystemCommandCallback { _p: u8 }
//@struct src/react/syscommand_runner.rs BufferedSyscommand
//@struct src/react/system_command_spawning.rs SystemCommandStorage
//@impl src/react/system_command_spawning.rs impl SystemCommandStorage
//@fn src/react/system_command_spawning.rs impl SystemCommandStorage insert
//@| ensures final(self).callback == Some(callback),
//@fn src/react/system_command_spawning.rs impl SystemCommandStorage take ret=r
//@| ensures r == old(self).callback, final(self).callback is None,
//@endimpl
//@struct src/react/command_queue.rs CobwebCommandQueue
impl<T: Send + Sync + 'static> CobwebCommandQueue<T> {
    /// Representation invariant (proved preserved by every method in unit `queue`): every cached spare buffer is empty.
    pub open spec fn wf(&self) -> bool { forall|i: int| 0 <= i < self.buffers@.len() ==> (#[trigger] self.buffers@[i])@.len() == 0 }
}
//@impl src/react/command_queue.rs impl CobwebCommandQueue
//@fn src/react/command_queue.rs impl CobwebCommandQueue remove ret=r
//@| requires old(self).wf(),
//@| ensures r@ == old(self).commands@, final(self).commands@.len() == 0, final(self).wf(),
//@fn src/react/command_queue.rs impl CobwebCommandQueue push
//@| ensures final(self).commands@ == old(self).commands@.push(command), final(self).buffers@ == old(self).buffers@,
//@fn src/react/command_queue.rs impl CobwebCommandQueue pop_front ret=r
//@| ensures old(self).commands@.len() == 0 ==> (r is None && final(self).commands@.len() == 0),
//@|         old(self).commands@.len() > 0 ==> (r == Some(old(self).commands@[0]) && final(self).commands@ == old(self).commands@.subrange(1, old(self).commands@.len() as int)),
//@|         final(self).buffers@ == old(self).buffers@,
//@fn src/react/command_queue.rs impl CobwebCommandQueue append
//@| requires old(self).wf(),
//@| ensures final(self).commands@ == old(self).commands@ + new@, final(self).wf(),
//@endimpl
// SyscommandCounter: `#[derive(Deref, DerefMut)] struct SyscommandCounter(usize)` (plugin.rs); the derives written out. ASSUMED faithful.
pub struct SyscommandCounter(pub usize);
impl core::ops::Deref for SyscommandCounter { type Target = usize; fn deref(&self) -> (r: &usize) ensures *r == self.0 { &self.0 } }
impl core::ops::DerefMut for SyscommandCounter { fn deref_mut(&mut self) -> (r: &mut usize) ensures *r == old(self).0, final(self).0 == *final(r) { &mut self.0 } }

// ---- ASSUMED World contract: two resources + liveness + SystemCommandStorage components ----------------------------------
#[verifier::external_body] pub struct World { _p: u8 }
impl World {
    pub uninterp spec fn counter(&self) -> SyscommandCounter;
    pub uninterp spec fn queue(&self) -> CobwebCommandQueue<BufferedSyscommand>;
    pub uninterp spec fn alive(&self) -> Set<Entity>;
    pub uninterp spec fn storage(&self) -> Map<Entity, SystemCommandStorage>;
}
// ASSUMED world invariants: (1) the buffer resource satisfies its representation invariant (established by Default and
// preserved by every method - unit `queue`; nothing else touches its private fields); (2) machine arithmetic: the run
// counter never reaches usize::MAX.
pub broadcast axiom fn axiom_queue_wf(w: World) ensures (#[trigger] w.queue()).wf();
pub broadcast axiom fn axiom_counter_small(w: World) ensures (#[trigger] w.counter()).0 < usize::MAX;
/// same observable bookkeeping (World is opaque: two worlds with equal observations are not provably the same value)
pub open spec fn obs_same(a: World, b: World) -> bool { a.counter() == b.counter() && a.queue() == b.queue() && a.alive() == b.alive() && a.storage() =~= b.storage() }
pub open spec fn ecs_same(a: &World, b: &World) -> bool { a.alive() == b.alive() && a.storage() == b.storage() }
pub trait Resource: Sized { spec fn get(w: &World) -> Self; spec fn frame(a: &World, b: &World) -> bool; }
impl Resource for SyscommandCounter {
    open spec fn get(w: &World) -> Self { w.counter() }
    open spec fn frame(a: &World, b: &World) -> bool { a.queue() == b.queue() && ecs_same(a, b) }
}
impl Resource for CobwebCommandQueue<BufferedSyscommand> {
    open spec fn get(w: &World) -> Self { w.queue() }
    open spec fn frame(a: &World, b: &World) -> bool { a.counter() == b.counter() && ecs_same(a, b) }
}
#[verifier::external_body] pub struct EntityView { _p: u8 }
pub type EntityWorldMut<'w> = &'w mut EntityView;
pub struct EntityFetchError;
impl EntityView {
    pub uninterp spec fn id(&self) -> Entity;
    pub uninterp spec fn storage_comp(&self) -> Option<SystemCommandStorage>;
    pub uninterp spec fn despawned(&self) -> bool;
    // EntityWorldMut::get_mut::<SystemCommandStorage>()
    #[verifier::external_body]
    pub fn get_mut<C>(&mut self) -> (r: Option<Mut<'_, SystemCommandStorage>>)
        ensures r is Some <==> old(self).storage_comp() is Some,
                r is Some ==> (*r->Some_0 == old(self).storage_comp()->Some_0 && final(self).storage_comp() == Some(*final(r->Some_0))),
                r is None ==> final(self).storage_comp() == old(self).storage_comp(),
                final(self).id() == old(self).id(), final(self).despawned() == old(self).despawned(),
    { unimplemented!() }
    // DespawnRecursiveExt::despawn_recursive (consumes the handle)
    #[verifier::external_body]
    pub fn despawn_recursive(&mut self) ensures final(self).despawned(), final(self).id() == old(self).id() { unimplemented!() }
}
impl World {
    #[verifier::external_body]
    pub fn resource<R: Resource>(&self) -> (r: &R) ensures *r == R::get(self) { unimplemented!() }
    #[verifier::external_body]
    pub fn resource_mut<R: Resource>(&mut self) -> (r: Mut<'_, R>) ensures *r == R::get(old(self)), R::get(final(self)) == *final(r), R::frame(old(self), final(self)) { unimplemented!() }
    // World::get_entity_mut(e): a handle to e if it is alive; through it only e's components / e's existence can change
    #[verifier::external_body]
    pub fn get_entity_mut(&mut self, e: Entity) -> (r: Result<EntityWorldMut<'_>, EntityFetchError>)
        ensures r is Ok <==> old(self).alive().contains(e),
                r is Err ==> *final(self) == *old(self),
                r is Ok ==> ({ let v = *r->Ok_0; let fv = *final(r->Ok_0);
                    v.id() == e && !v.despawned()
                    && v.storage_comp() == (if old(self).storage().dom().contains(e) { Some(old(self).storage()[e]) } else { None::<SystemCommandStorage> })
                    && final(self).counter() == old(self).counter() && final(self).queue() == old(self).queue()
                    && (fv.despawned() ==> !final(self).alive().contains(e))
                    && (!fv.despawned() ==> (final(self).alive() == old(self).alive()
                        && final(self).storage() == (match fv.storage_comp() { Some(c) => old(self).storage().insert(e, c), None => old(self).storage().remove(e) }))) }),
    { unimplemented!() }
}
// ---- uninterpreted effects of the callees that are not opened here --------------------------------------------------------
pub uninterp spec fn gc_eff(w: World) -> World;
pub uninterp spec fn poll_eff(w: World) -> World;
pub uninterp spec fn abort_eff(w: World, s: SystemCommandSetup, c: SystemCommandCleanup) -> World;
pub uninterp spec fn setup_eff(w: World, s: SystemCommandSetup) -> World;
pub uninterp spec fn run_eff(w: World, cb: SystemCommandCallback, c: SystemCommandCleanup) -> World;
//@extern src/ecs/auto_despawn.rs - garbage_collect_entities
//@| ensures *final(world) == gc_eff(*old(world)),
//@extern src/react/utils.rs - schedule_removal_and_despawn_reactors
//@| ensures *final(world) == poll_eff(*old(world)),
//@extern src/react/syscommand_runner.rs - cleanup_on_abort
//@| ensures *final(world) == abort_eff(*old(world), setup, cleanup),
//@impl src/react/syscommand_runner.rs impl SystemCommandSetup
//@extern src/react/syscommand_runner.rs impl SystemCommandSetup run
//@| ensures *final(world) == setup_eff(*old(world), self),
//@endimpl
//@impl src/react/system_command_spawning.rs impl SystemCommandCallback
//@extern src/react/system_command_spawning.rs impl SystemCommandCallback run
//@| ensures *final(world) == run_eff(*old(world), *old(self), cleanup),
//@endimpl
pub open spec fn entry(w: World) -> World { poll_eff(gc_eff(w)) }
pub open spec fn target_storage(w: World, command: SystemCommand) -> Option<SystemCommandStorage> {
    if w.alive().contains(command.0) && w.storage().dom().contains(command.0) { Some(w.storage()[command.0]) } else { None }
}

/// What ONE call `syscommand_runner(world, command, setup, cleanup)` promises (clauses A, B, C of the header), as a relation
/// between the world on entry and on return.  The replay closure is checked against THIS relation with the buffered entry's
/// own triple (clause D below).
pub open spec fn runner_post(w_in: World, command: SystemCommand, setup: SystemCommandSetup, cleanup: SystemCommandCleanup, w_out: World) -> bool {
    let w0 = entry(w_in); let idx = w_in.counter().0; let st = target_storage(w0, command);
    // A: cannot run now => exactly one cleanup_on_abort after the entry cleanup, nothing else
    &&& ((st is None || (st->Some_0.callback is None && idx == 0)) ==> (exists|w1: World| #![trigger abort_eff(w1, setup, cleanup)] w_out == abort_eff(w1, setup, cleanup)
            && w1.counter() == w0.counter() && w1.queue() == w0.queue() && w1.alive() == w0.alive()))
    // B: callback out and not the root => postponed, nothing else
    &&& ((st is Some && st->Some_0.callback is None && idx != 0) ==> (w_out.queue().commands@ == w0.queue().commands@.push(BufferedSyscommand { command: command, setup: setup, cleanup: cleanup })
            && w_out.counter() == w0.counter() && w_out.alive() == w0.alive()))
    // C: root call that ran its system => quiescent bookkeeping on return
    &&& ((st is Some && st->Some_0.callback is Some && idx == 0) ==> (w_out.counter().0 == 0 && w_out.queue().commands@.len() == 0))
}
/// D (replay of postponed commands; C05, C12, C18 at function level): one step of the replay.  An entry that names the command
/// that just finished is handed to the runner with ITS OWN (command, setup, cleanup) and leaves the buffer; any other entry is
/// kept and the world is not touched.
pub open spec fn replay_step(w_a: World, b: BufferedSyscommand, command: SystemCommand, w_b: World) -> bool {
    if b.command == command { runner_post(w_a, b.command, b.setup, b.cleanup, w_b) } else { w_b == w_a }
}
/// the entries that stay in the buffer, in their original order
pub open spec fn kept_of(s: Seq<BufferedSyscommand>, command: SystemCommand) -> Seq<BufferedSyscommand>
    decreases s.len()
{
    if s.len() == 0 { Seq::empty() } else {
        let r = kept_of(s.drop_last(), command);
        if s.last().command == command { r } else { r.push(s.last()) }
    }
}

// the retain loop (rule 14; its invariant is the //@lift.inv| lines; every `buffered_syscommands.retain(..)` statement is lifted under the same contract): entries are visited front to back, each exactly once; matching ones replayed with their
// own triple in buffer order (the chain of intermediate worlds is `verif_trace`), the others kept in order.
#[verifier::exec_allows_no_decreases_clause]
//@fn src/react/syscommand_runner.rs - syscommand_runner
//@| ensures runner_post(*old(world), command, setup, cleanup, *final(world)),
//@ghost | broadcast use axiom_queue_wf, axiom_counter_small;
//@ghost | let ghost mut verif_holding: bool = false;
//@after let Some(mut callback) = system_command.take() | proof { verif_holding = true; }
//@before #2 schedule_removal_and_despawn_reactors(world) | proof { verif_holding = false; }
//@atreturn | assert(!verif_holding);
//@liftretain buffered_syscommands .retain | replay_buffered | VecDeque<BufferedSyscommand> | idx: usize
//@lift| ensures buffered.command == command ==> !keep,
//@lift|         buffered.command != command ==> keep,
//@lift|         replay_step(*old(world), *buffered, command, *final(world)),
//@lift.pre | let ghost mut verif_trace: Seq<World> = seq![*world]; let ghost verif_s = buffered_syscommands@;
//@lift.post | proof { verif_trace = verif_trace.push(*world); assert(verif_s.take(verif_it.index@ + 1).drop_last() =~= verif_s.take(verif_it.index@ as int)); }
//@lift.inv| verif_it.seq().len() == verif_s.len(), forall|i: int| 0 <= i < verif_s.len() ==> *(#[trigger] verif_it.seq()[i]) == verif_s[i], verif_trace.len() == verif_it.index@ + 1, *world == verif_trace[verif_it.index@ as int],
//@lift.inv| forall|j: int| 0 <= j < verif_it.index@ ==> replay_step(#[trigger] verif_trace[j], verif_s[j], command, verif_trace[j + 1]),
//@lift.inv| verif_kept@ == kept_of(verif_s.take(verif_it.index@ as int), command),
//@loop 1 | invariant true, ensures world.queue().commands@.len() == 0,
//@before if let Ok(mut entity_mut) | let ghost verif_cb = callback; let ghost verif_wr = *world;
//@before #2 schedule_removal_and_despawn_reactors(world) | assert(target_storage(verif_wr, command) is Some ==> (target_storage(*world, command) is Some && target_storage(*world, command)->Some_0.callback == Some(verif_cb))); // clause F
//@before let mut buffered_syscommands | assert(exists|w: World| #![trigger poll_eff(w)] *world == poll_eff(w)); // clause E
//@before world.resource_mut::<CobwebCommandQueue<BufferedSyscommand>>().append | assert(buffered_syscommands@ == kept_of(verif_s, command)) by { assert(verif_s.take(verif_s.len() as int) =~= verif_s); }

} // verus!
fn main() {}
