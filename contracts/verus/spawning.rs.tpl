// Unit `spawning` (C13, C07): system_command_spawning.rs - how a system command comes into being.
//   SystemCommandStorage::new(cb) holds exactly cb; spawn_system_command_from(world, cb) spawns ONE new entity carrying exactly that
//   storage and returns its id - one persistent state per registration (C13); spawn_rc_system_command_from does the same and returns
//   the auto-despawn signal prepared for THAT entity (C07: the ref-counted handle of a reactor names the reactor's own entity).
use vstd::prelude::*;
verus! {
//@include prelude.inc
#[verifier::external_body] pub struct SystemCommandCallback { _p: u8 }
//@struct src/react/system_command_spawning.rs SystemCommandStorage
//@impl src/react/system_command_spawning.rs impl SystemCommandStorage
//@fn src/react/system_command_spawning.rs impl SystemCommandStorage new ret=r
//@| ensures r.callback == Some(callback),
//@endimpl
// ---- ASSUMED World contract: spawning an entity with one component; the AutoDespawner resource --------------------------------
#[verifier::external_body] pub struct World { _p: u8 }
#[verifier::external_body] pub struct EntityView { _p: u8 }
pub type EntityWorldMut<'w> = &'w mut EntityView;
impl EntityView {
    pub uninterp spec fn eid(&self) -> Entity;
    #[verifier::external_body]
    pub fn id(&self) -> (r: Entity) ensures r == self.eid() { unimplemented!() }
}
pub uninterp spec fn fresh(w: World) -> Entity;
pub trait Resource: Sized { spec fn get(w: &World) -> Self; }
impl Resource for AutoDespawner { uninterp spec fn get(w: &World) -> Self; }
impl World {
    pub uninterp spec fn alive(&self) -> Set<Entity>;
    pub uninterp spec fn storage(&self) -> Map<Entity, SystemCommandStorage>;
    // World::spawn(component): ONE new entity (not alive before) carrying exactly that component; nothing else changes
    #[verifier::external_body]
    pub fn spawn(&mut self, c: SystemCommandStorage) -> (r: EntityWorldMut<'_>)
        ensures r.eid() == fresh(*old(self)), !old(self).alive().contains(r.eid()),
                final(self).alive() == old(self).alive().insert(r.eid()), final(self).storage() == old(self).storage().insert(r.eid(), c),
                <AutoDespawner as Resource>::get(final(self)) == <AutoDespawner as Resource>::get(old(self)),
    { unimplemented!() }
    #[verifier::external_body]
    pub fn resource<R: Resource>(&self) -> (r: &R) ensures *r == R::get(self) { unimplemented!() }
}
pub open spec fn spawned(w0: World, cb: SystemCommandCallback, w1: World, id: Entity) -> bool {
    id == fresh(w0) && !w0.alive().contains(id) && w1.alive() == w0.alive().insert(id) && w1.storage() == w0.storage().insert(id, SystemCommandStorage { callback: Some(cb) })
}
//@fn src/react/system_command_spawning.rs - spawn_system_command_from ret=r
//@| ensures spawned(*old(world), callback, *final(world), r.0),
//@fn src/react/system_command_spawning.rs - spawn_rc_system_command_from ret=r
//@| ensures spawned(*old(world), callback, *final(world), r.spec_entity()),

} // verus!
fn main() {}
