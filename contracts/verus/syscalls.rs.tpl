// Unit `syscalls` (C17): the syscall family, function level.
//   spawned_syscall (spawned_syscall.rs) - verbatim:
//     S1 target entity gone, or without a SpawnedSystem<I, O> component  => Err, nothing runs, nothing changes;
//     S2 the stored system is OUT (the component holds None: it is running right now) => Err, nothing runs, nothing changes;
//     S3 otherwise the stored system is TAKEN (the component holds None while it runs - this is what makes S2 detect recursion),
//        run EXACTLY ONCE with the given input on that world, its output is returned, and THE SAME system value, as the run left
//        it (its persistent state), is stored back on the same entity iff that entity still exists with its component; if the
//        entity was despawned by the run nothing is reinserted.
//   syscall_with_validation (syscall.rs) - verbatim except that the parameter type `fn(&mut World)` is the opaque stand-in
//   `ValidationFn` (rule 19) and the one call through it is an uninterpreted effect (rule 11):
//     Y1 a system cached for the key (I, O, S) - the resource InitializedSystem<I, O, S> - is taken out, run EXACTLY ONCE with the
//        given input, its output returned, and THE SAME system value as the run left it is stored back under the same key: no
//        validation, no new system, no second initialisation (state persists across calls with the same key);
//     Y2 no cached system => validation runs first, then ONE system is built from the function, initialised ONCE, run once, and
//        stored under the key;
//     in both cases the key's slot is EMPTY while the system runs, and nothing else is removed or inserted (keys are independent).
//   named_syscall / named_syscall_direct (named_syscall.rs) - verbatim modulo rules 20 (`map_or(None, |node| node.take())` read as a
//   match) and 21 (the thunk `|| IdMappedSystems::default()` is the fn item with that body):
//     N1 a system stored under the name (SysName = hash of the id + the function type) is TAKEN OUT of its slot (the slot holds None
//        while it runs), run EXACTLY ONCE with the given input, its pending commands applied, its output returned, and THE SAME system
//        value as the run left it stored back under the same name;
//     N2 no stored system: named_syscall builds ONE system from the function, initialises it ONCE, runs it and stores it under the
//        name; named_syscall_direct returns Err WITHOUT running anything and without changing the table;
//     N3 every other name's slot is exactly as the run left it (names are independent keys).
// `CallbackSystem::run` is an uninterpreted effect here (run + apply_deferred are discharged on the real code by K.callbacks.*).
use vstd::prelude::*;
use std::marker::PhantomData;
verus! {
//@include prelude.inc
pub type Mut<'a, T> = &'a mut T;
pub trait SystemInput: Sized { type Inner<'i>; }
#[verifier::external_body] #[verifier::accept_recursive_types(I)] #[verifier::accept_recursive_types(O)]
pub struct CallbackSystem<I, O> { _p: core::marker::PhantomData<(I, O)> }
//@struct src/ecs/spawned_syscall.rs SysId
//@struct src/ecs/spawned_syscall.rs SpawnedSystem

// ---- ASSUMED World contract: liveness + SpawnedSystem<I, O> components (one map per (I, O)) -----------------------------------
#[verifier::external_body] pub struct World { _p: u8 }
#[verifier::external_body] pub struct EntityView { _p: u8 }
pub type EntityWorldMut<'w> = &'w mut EntityView;
pub struct EntityFetchError;
pub uninterp spec fn enc<T>(t: T) -> int;
pub uninterp spec fn run_eff<I: Send + Sync + SystemInput + 'static, O: Send + Sync + 'static>(w: World, cb: CallbackSystem<I, O>, input: int) -> (World, CallbackSystem<I, O>, Option<O>);
pub trait Comp: Sized { spec fn of(v: &EntityView) -> Option<Self>; }
impl<I: Send + Sync + SystemInput + 'static, O: Send + Sync + 'static> Comp for SpawnedSystem<I, O> { open spec fn of(v: &EntityView) -> Option<Self> { v.spawned::<I, O>() } }
impl EntityView {
    pub uninterp spec fn eid(&self) -> Entity;
    pub uninterp spec fn spawned<I: Send + Sync + SystemInput + 'static, O: Send + Sync + 'static>(&self) -> Option<SpawnedSystem<I, O>>;
    // EntityWorldMut::get_mut::<C>(): the entity's C component, if it has one; only that component can change through it
    #[verifier::external_body]
    pub fn get_mut<C: Comp>(&mut self) -> (r: Option<Mut<'_, C>>)
        ensures r is Some <==> C::of(old(self)) is Some,
                r is Some ==> (*r->Some_0 == C::of(old(self))->Some_0 && C::of(final(self)) == Some(*final(r->Some_0))),
                r is None ==> C::of(final(self)) == C::of(old(self)),
                final(self).eid() == old(self).eid(),
    { unimplemented!() }
}
/// `v` is the view of entity `e` in `w0`; when the handle is released with the view `fv`, the world is `w1`
pub uninterp spec fn view_of(w0: World, e: Entity, v: EntityView, fv: EntityView, w1: World) -> bool;
impl World {
    pub uninterp spec fn alive(&self) -> Set<Entity>;
    pub uninterp spec fn spawned<I: Send + Sync + SystemInput + 'static, O: Send + Sync + 'static>(&self) -> Map<Entity, SpawnedSystem<I, O>>;
    // World::get_entity_mut(e): a handle to e iff it is alive; through it only e's components can change
    #[verifier::external_body]
    pub fn get_entity_mut(&mut self, e: Entity) -> (r: Result<EntityWorldMut<'_>, EntityFetchError>)
        ensures r is Ok <==> old(self).alive().contains(e),
                r is Err ==> *final(self) == *old(self),
                r is Ok ==> (r->Ok_0.eid() == e && final(self).alive() == old(self).alive() && #[trigger] view_of(*old(self), e, *r->Ok_0, *final(r->Ok_0), *final(self))),
    { unimplemented!() }
}
// the view relation, per component type (ASSUMED; generic in (I, O), which a function contract cannot quantify over)
pub broadcast axiom fn axiom_view_in<I: Send + Sync + SystemInput + 'static, O: Send + Sync + 'static>(w0: World, e: Entity, v: EntityView, fv: EntityView, w1: World)
    requires #[trigger] view_of(w0, e, v, fv, w1),
    ensures #[trigger] v.spawned::<I, O>() == (if w0.spawned::<I, O>().dom().contains(e) { Some(w0.spawned::<I, O>()[e]) } else { None::<SpawnedSystem<I, O>> });
pub broadcast axiom fn axiom_view_out<I: Send + Sync + SystemInput + 'static, O: Send + Sync + 'static>(w0: World, e: Entity, v: EntityView, fv: EntityView, w1: World)
    requires #[trigger] view_of(w0, e, v, fv, w1),
    ensures #[trigger] w1.spawned::<I, O>() == (match fv.spawned::<I, O>() { Some(c) => w0.spawned::<I, O>().insert(e, c), None => w0.spawned::<I, O>().remove(e) });
impl<I: Send + Sync + SystemInput + 'static, O: Send + Sync + 'static> CallbackSystem<I, O> {
    // CallbackSystem::run: uninterpreted effect (discharged on the real code by K.callbacks.*)
    #[verifier::external_body]
    pub fn run(&mut self, world: &mut World, input: <I as SystemInput>::Inner<'_>) -> (r: Option<O>)
        ensures (*final(world), *final(self), r) == run_eff::<I, O>(*old(world), *old(self), enc(input)),
    { unimplemented!() }
}
pub open spec fn stored<I: Send + Sync + SystemInput + 'static, O: Send + Sync + 'static>(w: World, e: Entity) -> Option<SpawnedSystem<I, O>> {
    if w.alive().contains(e) && w.spawned::<I, O>().dom().contains(e) { Some(w.spawned::<I, O>()[e]) } else { None }
}

//@fn src/ecs/spawned_syscall.rs - spawned_syscall ret=r
//@| ensures ({ let e = sys_id.0; let st = stored::<I, O>(*old(world), e);
//@|     // S1, S2
//@|     &&& ((st is None || st->Some_0.system is None) ==> (r is Err && final(world).alive() == old(world).alive() && final(world).spawned::<I, O>() =~= old(world).spawned::<I, O>()))
//@|     // S3
//@|     &&& ((st is Some && st->Some_0.system is Some) ==> (exists|w1: World| #![trigger run_eff::<I, O>(w1, st->Some_0.system->Some_0, enc(input))] {
//@|             let out = run_eff::<I, O>(w1, st->Some_0.system->Some_0, enc(input));
//@|             &&& w1.alive() == old(world).alive() && w1.spawned::<I, O>() =~= old(world).spawned::<I, O>().insert(e, SpawnedSystem { system: None })
//@|             &&& (out.2 is None ==> r is Err)
//@|             &&& (out.2 is Some ==> r == Ok::<O, ()>(out.2->Some_0))
//@|             &&& final(world).alive() == out.0.alive()
//@|             &&& (out.2 is Some && stored::<I, O>(out.0, e) is Some ==> final(world).spawned::<I, O>() =~= out.0.spawned::<I, O>().insert(e, SpawnedSystem { system: Some(out.1) }))
//@|             &&& (out.2 is None || stored::<I, O>(out.0, e) is None ==> final(world).spawned::<I, O>() =~= out.0.spawned::<I, O>())
//@|         }))
//@| }),
//@ghost | broadcast use axiom_view_in, axiom_view_out;

// ---- syscall_with_validation ----------------------------------------------------------------------------------------------
#[verifier::external_body] #[verifier::accept_recursive_types(I)] #[verifier::accept_recursive_types(O)]
pub struct Sys<I, O> { _p: core::marker::PhantomData<(I, O)> }
pub type BoxedSystem<I, O> = Box<Sys<I, O>>;
pub uninterp spec fn new_sys<I, O, S>(s: S) -> Sys<I, O>;
pub uninterp spec fn init_eff<I, O>(w: World, s: Sys<I, O>) -> (World, Sys<I, O>);
pub uninterp spec fn sysrun_eff<I, O>(w: World, s: Sys<I, O>, input: int) -> (World, Sys<I, O>, O);
pub trait IntoSystem<I, O, M>: Sized {
    // bevy IntoSystem::into_system: the system made from this function (no world access)
    fn into_system(this: Self) -> (r: Sys<I, O>) ensures r == new_sys::<I, O, Self>(this);
}
impl<I: SystemInput, O> Sys<I, O> {
    #[verifier::external_body]
    pub fn initialize(&mut self, world: &mut World) ensures (*final(world), *final(self)) == init_eff::<I, O>(*old(world), *old(self)) { unimplemented!() }
    // bevy System::run = run_unsafe + apply_deferred (ASSUMED; the stub System of the Kani tier has the same contract)
    #[verifier::external_body]
    pub fn run(&mut self, input: <I as SystemInput>::Inner<'_>, world: &mut World) -> (r: O)
        ensures (*final(world), *final(self), r) == sysrun_eff::<I, O>(*old(world), *old(self), enc(input)) { unimplemented!() }
}
#[verifier::external_body] pub struct ValidationFn { _p: u8 }
pub uninterp spec fn validate_eff(w: World, v: ValidationFn) -> World;
impl ValidationFn {
    #[verifier::external_body]
    pub fn call(&self, world: &mut World) ensures *final(world) == validate_eff(*old(world), *self) { unimplemented!() }
}
//@struct src/ecs/syscall.rs InitializedSystem
pub uninterp spec fn rem_eff<R>(w: World) -> World;
pub uninterp spec fn ins_eff<R>(w: World, r: R) -> World;
impl World {
    pub uninterp spec fn res<R>(&self) -> Option<R>;
    // World::remove_resource::<R>(): the resource of type R, which is no longer in the world; None and no change if there is none
    #[verifier::external_body]
    pub fn remove_resource<R>(&mut self) -> (r: Option<R>)
        ensures r == old(self).res::<R>(), r is None ==> *final(self) == *old(self), r is Some ==> *final(self) == rem_eff::<R>(*old(self)),
    { unimplemented!() }
    #[verifier::external_body]
    pub fn insert_resource<R>(&mut self, r: R) ensures *final(self) == ins_eff::<R>(*old(self), r) { unimplemented!() }
    // World::contains_resource::<R>(): whether a resource of type R is in the world (reads only)
    #[verifier::external_body]
    pub fn contains_resource<R>(&self) -> (b: bool) ensures b == (self.res::<R>() is Some) { unimplemented!() }
}

//@fn src/ecs/syscall.rs - syscall_with_validation ret=r
//@| ensures ({ let cached = old(world).res::<InitializedSystem<I, O, S>>();
//@|     // Y1
//@|     &&& (cached is Some ==> ({ let out = sysrun_eff::<I, O>(rem_eff::<InitializedSystem<I, O, S>>(*old(world)), *cached->Some_0.sys, enc(input));
//@|             r == out.2 && *final(world) == ins_eff(out.0, InitializedSystem::<I, O, S> { sys: Box::new(out.1), _phantom: PhantomData }) }))
//@|     // Y2
//@|     &&& (cached is None ==> ({ let i = init_eff::<I, O>(validate_eff(*old(world), validation), new_sys::<I, O, S>(system));
//@|             let out = sysrun_eff::<I, O>(i.0, i.1, enc(input));
//@|             r == out.2 && *final(world) == ins_eff(out.0, InitializedSystem::<I, O, S> { sys: Box::new(out.1), _phantom: PhantomData }) }))
//@| }),
//@sigsubst fn(&mut World) | ValidationFn
//@dropstmt (validation)(world) | validation.call(world);

// ---- named_syscall / named_syscall_direct ------------------------------------------------------------------------------------
#[verifier::external_body]
#[verifier::reject_recursive_types(K)]
#[verifier::accept_recursive_types(V)]
pub struct HashMap<K, V> { _k: core::marker::PhantomData<(K, V)> }
impl<K, V> HashMap<K, V> {
    pub uninterp spec fn view(&self) -> Map<K, V>;
    #[verifier::external_body]
    pub fn get_mut(&mut self, k: &K) -> (r: Option<&mut V>)
        ensures r is Some <==> old(self).view().dom().contains(*k),
                r is Some ==> (*r->Some_0 == old(self).view()[*k] && final(self).view() == old(self).view().insert(*k, *final(r->Some_0))),
                r is None ==> final(self).view() == old(self).view(),
    { unimplemented!() }
    #[verifier::external_body]
    pub fn insert(&mut self, k: K, v: V) -> (r: Option<V>) ensures final(self).view() == old(self).view().insert(k, v) { unimplemented!() }
}
// `entry(k).or_insert(v)`: v is stored only if k has no value yet; an existing value - whatever it is - is kept
#[verifier::external_body]
#[verifier::reject_recursive_types(K)]
#[verifier::accept_recursive_types(V)]
pub struct Entry<'a, K, V> { _k: core::marker::PhantomData<&'a mut (K, V)> }
impl<'a, K, V> Entry<'a, K, V> {
    pub uninterp spec fn key(&self) -> K;
    pub uninterp spec fn before(&self) -> Map<K, V>;
    pub uninterp spec fn after(&self) -> Map<K, V>;
    #[verifier::external_body]
    pub fn or_insert(self, v: V) -> (r: &'a mut V)
        ensures self.before().dom().contains(self.key()) ==> *r == self.before()[self.key()],
                !self.before().dom().contains(self.key()) ==> *r == v,
                self.after() == self.before().insert(self.key(), *final(r)),
    { unimplemented!() }
}
impl<K, V> HashMap<K, V> {
    #[verifier::external_body]
    pub fn entry(&mut self, k: K) -> (e: Entry<'_, K, V>) ensures e.key() == k, e.before() == old(self).view(), final(self).view() == e.after() { unimplemented!() }
}
impl<K, V> Default for HashMap<K, V> { #[verifier::external_body] fn default() -> (r: Self) ensures r.view() == Map::<K, V>::empty() { unimplemented!() } }
pub assume_specification<T> [core::option::Option::<T>::replace] (o: &mut Option<T>, v: T) -> (r: Option<T>) ensures r == *old(o), *final(o) == Some(v);
pub trait Hash {}
//@struct src/ecs/named_syscall.rs SysName structural
impl SysName {
    pub uninterp spec fn of<S, H>(id: H) -> SysName;
    // SysName::new::<S>(id): (hash of id, TypeId of S) - a pure function of (S, id)
    #[verifier::external_body]
    pub fn new<S: 'static>(id: impl Hash) -> (r: SysName) ensures r == SysName::of::<S, _>(id) { unimplemented!() }
}
//@struct src/ecs/named_syscall.rs IdMappedSystems
//@impl src/ecs/named_syscall.rs impl Default for IdMappedSystems
//@fn src/ecs/named_syscall.rs impl Default for IdMappedSystems default ret=r
//@| ensures r.systems.view() == Map::<SysName, Option<BoxedSystem<I, O>>>::empty(),
//@endimpl
pub struct CobwebEcsErrorInner;
pub enum CobwebEcsError { NamedSyscall(SysName) }
pub uninterp spec fn applydef_eff<I, O>(w: World, s: Sys<I, O>) -> (World, Sys<I, O>);
impl<I: SystemInput, O> Sys<I, O> {
    #[verifier::external_body]
    pub fn apply_deferred(&mut self, world: &mut World) ensures (*final(world), *final(self)) == applydef_eff::<I, O>(*old(world), *old(self)) { unimplemented!() }
}
/// everything in the world except the resource of type R is the same
pub uninterp spec fn same_but<R>(a: World, b: World) -> bool;
impl World {
    // World::get_resource_or_insert_with::<R>(f): the resource R (created by f() if absent); only R can change through the handle
    #[verifier::external_body]
    pub fn get_resource_or_insert_with<R>(&mut self, f: impl FnOnce() -> R) -> (r: Mut<'_, R>)
        ensures old(self).res::<R>() is Some ==> *r == old(self).res::<R>()->Some_0,
                old(self).res::<R>() is None ==> call_ensures(f, (), *r),
                final(self).res::<R>() == Some(*final(r)), same_but::<R>(*old(self), *final(self)),
    { unimplemented!() }
}
/// the name table of (I, O) as a map; an absent resource is the empty table
pub open spec fn named<I: Send + Sync + SystemInput + 'static, O: Send + Sync + 'static>(w: World) -> Map<SysName, Option<BoxedSystem<I, O>>> {
    match w.res::<IdMappedSystems<I, O>>() { Some(m) => m.systems.view(), None => Map::empty() }
}
/// what happens after a system `s` was obtained for `name` on world `w1`: run, apply, store back
pub open spec fn run_and_store<I: Send + Sync + SystemInput + 'static, O: Send + Sync + 'static>(w1: World, s: Sys<I, O>, input: int, name: SysName, w_out: World, r: O) -> bool {
    let out = sysrun_eff::<I, O>(w1, s, input); let ap = applydef_eff::<I, O>(out.0, out.1);
    r == out.2 && same_but::<IdMappedSystems<I, O>>(ap.0, w_out) && named::<I, O>(w_out) =~= named::<I, O>(ap.0).insert(name, Some(Box::new(ap.1)))
}

//@fn src/ecs/named_syscall.rs - named_syscall ret=r
//@| ensures ({ let name = SysName::of::<S, H>(id); let m0 = named::<I, O>(*old(world));
//@|     // N1
//@|     &&& ((m0.dom().contains(name) && m0[name] is Some) ==> (exists|w1: World| #![trigger sysrun_eff::<I, O>(w1, *m0[name]->Some_0, enc(input))]
//@|             same_but::<IdMappedSystems<I, O>>(*old(world), w1) && named::<I, O>(w1) =~= m0.insert(name, None) && run_and_store::<I, O>(w1, *m0[name]->Some_0, enc(input), name, *final(world), r)))
//@|     // N2
//@|     &&& (!(m0.dom().contains(name) && m0[name] is Some) ==> (exists|w1: World| #![trigger init_eff::<I, O>(w1, new_sys::<I, O, S>(system))] {
//@|             let i = init_eff::<I, O>(w1, new_sys::<I, O, S>(system));
//@|             same_but::<IdMappedSystems<I, O>>(*old(world), w1) && named::<I, O>(w1) =~= m0 && run_and_store::<I, O>(i.0, i.1, enc(input), name, *final(world), r) }))
//@| }),
//@thunk || IdMappedSystems::default() | ims_default | <I: Send + Sync + SystemInput + 'static, O: Send + Sync + 'static> | ::<I, O> | IdMappedSystems<I, O>
//@lift| ensures r.systems.view() == Map::<SysName, Option<BoxedSystem<I, O>>>::empty(),
//@mapor match id_mapped_systems.systems.get_mut

//@fn src/ecs/named_syscall.rs - named_syscall_direct ret=r
//@| ensures ({ let m0 = named::<I, O>(*old(world));
//@|     &&& ((m0.dom().contains(sys_name) && m0[sys_name] is Some) ==> (r is Ok && exists|w1: World| #![trigger sysrun_eff::<I, O>(w1, *m0[sys_name]->Some_0, enc(input))]
//@|             same_but::<IdMappedSystems<I, O>>(*old(world), w1) && named::<I, O>(w1) =~= m0.insert(sys_name, None) && run_and_store::<I, O>(w1, *m0[sys_name]->Some_0, enc(input), sys_name, *final(world), r->Ok_0)))
//@|     &&& (!(m0.dom().contains(sys_name) && m0[sys_name] is Some) ==> (r == Err::<O, CobwebEcsError>(CobwebEcsError::NamedSyscall(sys_name))
//@|             && same_but::<IdMappedSystems<I, O>>(*old(world), *final(world)) && named::<I, O>(*final(world)) =~= m0))
//@| }),
//@thunk || IdMappedSystems::default() | ims_default | <I: Send + Sync + SystemInput + 'static, O: Send + Sync + 'static> | ::<I, O> | IdMappedSystems<I, O>
//@lift| ensures r.systems.view() == Map::<SysName, Option<BoxedSystem<I, O>>>::empty(),
//@mapor match id_mapped_systems.systems.get_mut

// ---- register_named_system_from: stores an initialised system under the name (overwriting what was there) -----------------------
pub uninterp spec fn take_init_eff<I, O>(w: World, cb: CallbackSystem<I, O>) -> (World, Option<BoxedSystem<I, O>>);
impl<I: Send + Sync + SystemInput + 'static, O: Send + Sync + 'static> CallbackSystem<I, O> {
    // CallbackSystem::take_initialized (proved in unit `callbacks`): the boxed system, initialised if it was New; None for an Empty slot
    #[verifier::external_body]
    pub fn take_initialized(self, world: &mut World) -> (r: Option<BoxedSystem<I, O>>)
        ensures (*final(world), r) == take_init_eff::<I, O>(*old(world), self),
    { unimplemented!() }
}
//@fn src/ecs/named_syscall.rs - register_named_system_from
//@| ensures ({ let t = take_init_eff::<I, O>(*old(world), callback);
//@|     &&& (t.1 is None ==> *final(world) == t.0)
//@|     &&& (t.1 is Some ==> (same_but::<IdMappedSystems<I, O>>(t.0, *final(world)) && named::<I, O>(*final(world)) =~= named::<I, O>(t.0).insert(sys_name, Some(t.1->Some_0)))) }),
//@thunk || IdMappedSystems::default() | ims_default | <I: Send + Sync + SystemInput + 'static, O: Send + Sync + 'static> | ::<I, O> | IdMappedSystems<I, O>
//@lift| ensures r.systems.view() == Map::<SysName, Option<BoxedSystem<I, O>>>::empty(),

// ---- spawn_system_from: a spawned system comes into being as ONE new entity whose component holds exactly that system ----------
pub uninterp spec fn fresh(w: World) -> Entity;
impl EntityView {
    #[verifier::external_body]
    pub fn id(&self) -> (r: Entity) ensures r == self.eid() { unimplemented!() }
}
impl World {
    // World::spawn(component): ONE new entity (not alive before) carrying exactly that component
    #[verifier::external_body]
    pub fn spawn<I: Send + Sync + SystemInput + 'static, O: Send + Sync + 'static>(&mut self, c: SpawnedSystem<I, O>) -> (r: EntityWorldMut<'_>)
        ensures r.eid() == fresh(*old(self)), !old(self).alive().contains(r.eid()), final(self).alive() == old(self).alive().insert(r.eid()),
                final(self).spawned::<I, O>() == old(self).spawned::<I, O>().insert(r.eid(), c),
    { unimplemented!() }
}
//@impl src/ecs/spawned_syscall.rs impl SysId
//@fn src/ecs/spawned_syscall.rs impl SysId new ret=r
//@| ensures r.0 == entity,
//@fn src/ecs/spawned_syscall.rs impl SysId entity ret=r
//@| ensures r == self.0,
//@endimpl
//@impl src/ecs/spawned_syscall.rs impl SpawnedSystem
//@fn src/ecs/spawned_syscall.rs impl SpawnedSystem new ret=r
//@| ensures r.system == Some(system),
//@endimpl
//@fn src/ecs/spawned_syscall.rs - spawn_system_from ret=r
//@| ensures r.0 == fresh(*old(world)), !old(world).alive().contains(r.0), final(world).alive() == old(world).alive().insert(r.0),
//@|         final(world).spawned::<I, O>() == old(world).spawned::<I, O>().insert(r.0, SpawnedSystem { system: Some(system) }),

} // verus!
fn main() {}
