// Unit `trackers` (C03, C04, C12): prepare / end / getters of the four access trackers (verbatim).
// `start` is NOT in Verus' subset (Iterator::position with a pattern closure) - it is under Kani contract
// (unit K.tracker); its contract is restated here as the spec function `start_spec` used by lemma L1.
use vstd::prelude::*;
verus! {
//@include prelude.inc
//@enum src/react/utils.rs EntityReactionType
//@enum src/react/utils.rs ReactorHandle

// ---------------- EventAccessTracker (broadcast + entity events) ----------------

// ---- `start`: the index std's position() returns IS the first index of the recursive spec used by units `commands` / L1 -------
pub open spec fn first_idx<M>(s: Seq<(SystemCommand, M)>, r: SystemCommand) -> int decreases s.len()
{ if s.len() == 0 { -1 } else if s[0].0 == r { 0 } else { let t = first_idx(s.subrange(1, s.len() as int), r); if t < 0 { -1 } else { t + 1 } } }
pub open spec fn first_idx3<A, B>(s: Seq<(SystemCommand, A, B)>, r: SystemCommand) -> int decreases s.len()
{ if s.len() == 0 { -1 } else if s[0].0 == r { 0 } else { let t = first_idx3(s.subrange(1, s.len() as int), r); if t < 0 { -1 } else { t + 1 } } }
pub proof fn lemma_first_idx_none<M>(s: Seq<(SystemCommand, M)>, r: SystemCommand)
    requires forall|j: int| 0 <= j < s.len() ==> (#[trigger] s[j]).0 != r,
    ensures first_idx(s, r) == -1,
    decreases s.len(),
{
    if s.len() > 0 { let t = s.subrange(1, s.len() as int); assert forall|j: int| 0 <= j < t.len() implies (#[trigger] t[j]).0 != r by { assert(t[j] == s[j + 1]); } lemma_first_idx_none(t, r); }
}
pub proof fn lemma_first_idx_some<M>(s: Seq<(SystemCommand, M)>, r: SystemCommand, i: int)
    requires 0 <= i < s.len(), s[i].0 == r, forall|j: int| 0 <= j < i ==> (#[trigger] s[j]).0 != r,
    ensures first_idx(s, r) == i,
    decreases s.len(),
{
    if i > 0 { let t = s.subrange(1, s.len() as int); assert(t[i - 1] == s[i]); assert forall|j: int| 0 <= j < i - 1 implies (#[trigger] t[j]).0 != r by { assert(t[j] == s[j + 1]); } lemma_first_idx_some(t, r, i - 1); }
}
pub proof fn lemma_first_idx3_none<A, B>(s: Seq<(SystemCommand, A, B)>, r: SystemCommand)
    requires forall|j: int| 0 <= j < s.len() ==> (#[trigger] s[j]).0 != r,
    ensures first_idx3(s, r) == -1,
    decreases s.len(),
{
    if s.len() > 0 { let t = s.subrange(1, s.len() as int); assert forall|j: int| 0 <= j < t.len() implies (#[trigger] t[j]).0 != r by { assert(t[j] == s[j + 1]); } lemma_first_idx3_none(t, r); }
}
pub proof fn lemma_first_idx3_some<A, B>(s: Seq<(SystemCommand, A, B)>, r: SystemCommand, i: int)
    requires 0 <= i < s.len(), s[i].0 == r, forall|j: int| 0 <= j < i ==> (#[trigger] s[j]).0 != r,
    ensures first_idx3(s, r) == i,
    decreases s.len(),
{
    if i > 0 { let t = s.subrange(1, s.len() as int); assert(t[i - 1] == s[i]); assert forall|j: int| 0 <= j < i - 1 implies (#[trigger] t[j]).0 != r by { assert(t[j] == s[j + 1]); } lemma_first_idx3_some(t, r, i - 1); }
}
//@struct src/react/event_readers.rs EventAccessTracker
//@impl src/react/event_readers.rs impl EventAccessTracker
//@fn src/react/event_readers.rs impl EventAccessTracker start
//@| ensures ({ let i = first_idx(old(self).prepared@, reactor);
//@|     if i < 0 { *final(self) == *old(self) }
//@|     else { final(self).prepared@ == old(self).prepared@.remove(i) && final(self).currently_reacting && final(self).data_entity == old(self).prepared@[i].1 } }),
//@liftposition let Some(pos) | start_position | (SystemCommand, Entity) |
//@lift| ensures r is None ==> first_idx(verif_v@, reactor) == -1,
//@lift|         r is Some ==> (0 <= r->Some_0 < verif_v@.len() && first_idx(verif_v@, reactor) == r->Some_0 && verif_v@[r->Some_0 as int].0 == reactor),
//@lift.pred| ensures b == (verif_x.0 == reactor),
//@lift.inv| verif_i <= verif_v@.len(), forall|j: int| 0 <= j < verif_i ==> (#[trigger] verif_v@[j]).0 != reactor,
//@lift.found| proof { lemma_first_idx_some(verif_v@, reactor, verif_i as int); }
//@lift.none| proof { lemma_first_idx_none(verif_v@, reactor); }
//@fn src/react/event_readers.rs impl EventAccessTracker prepare
//@| ensures final(self).prepared@ == old(self).prepared@.push((system, data_entity)),
//@|         final(self).currently_reacting == old(self).currently_reacting,
//@|         final(self).data_entity == old(self).data_entity,
//@fn src/react/event_readers.rs impl EventAccessTracker end ret=r
//@| ensures !final(self).currently_reacting,
//@|         r == old(self).data_entity,
//@|         final(self).data_entity == old(self).data_entity,
//@|         final(self).prepared@ == old(self).prepared@,
//@fn src/react/event_readers.rs impl EventAccessTracker is_reacting ret=r
//@| ensures r == self.currently_reacting,
//@fn src/react/event_readers.rs impl EventAccessTracker data_entity ret=r
//@| ensures r == self.data_entity,
//@endimpl
//@impl src/react/event_readers.rs impl Default for EventAccessTracker
//@fn src/react/event_readers.rs impl Default for EventAccessTracker default ret=r
//@| ensures !r.currently_reacting, r.prepared@.len() == 0,
//@endimpl

// ---------------- SystemEventAccessTracker ----------------
//@struct src/react/system_event_reader.rs SystemEventAccessTracker
//@impl src/react/system_event_reader.rs impl SystemEventAccessTracker
//@fn src/react/system_event_reader.rs impl SystemEventAccessTracker start
//@| ensures ({ let i = first_idx(old(self).prepared@, reactor);
//@|     if i < 0 { *final(self) == *old(self) }
//@|     else { final(self).prepared@ == old(self).prepared@.remove(i) && final(self).currently_reacting && final(self).data_entity == old(self).prepared@[i].1 } }),
//@liftposition let Some(pos) | start_position | (SystemCommand, Entity) |
//@lift| ensures r is None ==> first_idx(verif_v@, reactor) == -1,
//@lift|         r is Some ==> (0 <= r->Some_0 < verif_v@.len() && first_idx(verif_v@, reactor) == r->Some_0 && verif_v@[r->Some_0 as int].0 == reactor),
//@lift.pred| ensures b == (verif_x.0 == reactor),
//@lift.inv| verif_i <= verif_v@.len(), forall|j: int| 0 <= j < verif_i ==> (#[trigger] verif_v@[j]).0 != reactor,
//@lift.found| proof { lemma_first_idx_some(verif_v@, reactor, verif_i as int); }
//@lift.none| proof { lemma_first_idx_none(verif_v@, reactor); }
//@fn src/react/system_event_reader.rs impl SystemEventAccessTracker prepare
//@| ensures final(self).prepared@ == old(self).prepared@.push((system, data_entity)),
//@|         final(self).currently_reacting == old(self).currently_reacting,
//@|         final(self).data_entity == old(self).data_entity,
//@fn src/react/system_event_reader.rs impl SystemEventAccessTracker end ret=r
//@| ensures !final(self).currently_reacting,
//@|         r == old(self).data_entity,
//@|         final(self).data_entity == old(self).data_entity,
//@|         final(self).prepared@ == old(self).prepared@,
//@fn src/react/system_event_reader.rs impl SystemEventAccessTracker is_reacting ret=r
//@| ensures r == self.currently_reacting,
//@fn src/react/system_event_reader.rs impl SystemEventAccessTracker data_entity ret=r
//@| ensures r == self.data_entity,
//@endimpl
//@impl src/react/system_event_reader.rs impl Default for SystemEventAccessTracker
//@fn src/react/system_event_reader.rs impl Default for SystemEventAccessTracker default ret=r
//@| ensures !r.currently_reacting, r.prepared@.len() == 0,
//@endimpl

// ---------------- EntityReactionAccessTracker ----------------
//@struct src/react/entity_reaction_readers.rs EntityReactionAccessTracker
//@impl src/react/entity_reaction_readers.rs impl EntityReactionAccessTracker
//@fn src/react/entity_reaction_readers.rs impl EntityReactionAccessTracker start
//@| ensures ({ let i = first_idx3(old(self).prepared@, reactor);
//@|     if i < 0 { *final(self) == *old(self) }
//@|     else { final(self).prepared@ == old(self).prepared@.remove(i) && final(self).currently_reacting && final(self).system == reactor && final(self).reaction_source == old(self).prepared@[i].1 && final(self).reaction_type == old(self).prepared@[i].2 } }),
//@liftposition let Some(pos) | start_position | (SystemCommand, Entity, EntityReactionType) |
//@lift| ensures r is None ==> first_idx3(verif_v@, reactor) == -1,
//@lift|         r is Some ==> (0 <= r->Some_0 < verif_v@.len() && first_idx3(verif_v@, reactor) == r->Some_0 && verif_v@[r->Some_0 as int].0 == reactor),
//@lift.pred| ensures b == (verif_x.0 == reactor),
//@lift.inv| verif_i <= verif_v@.len(), forall|j: int| 0 <= j < verif_i ==> (#[trigger] verif_v@[j]).0 != reactor,
//@lift.found| proof { lemma_first_idx3_some(verif_v@, reactor, verif_i as int); }
//@lift.none| proof { lemma_first_idx3_none(verif_v@, reactor); }
//@fn src/react/entity_reaction_readers.rs impl EntityReactionAccessTracker prepare
//@| ensures final(self).prepared@ == old(self).prepared@.push((system, source, reaction)),
//@|         final(self).currently_reacting == old(self).currently_reacting,
//@|         final(self).system == old(self).system,
//@|         final(self).reaction_source == old(self).reaction_source,
//@|         final(self).reaction_type == old(self).reaction_type,
//@fn src/react/entity_reaction_readers.rs impl EntityReactionAccessTracker end
//@| ensures !final(self).currently_reacting,
//@|         final(self).prepared@ == old(self).prepared@,
//@fn src/react/entity_reaction_readers.rs impl EntityReactionAccessTracker is_reacting ret=r
//@| ensures r == self.currently_reacting,
//@fn src/react/entity_reaction_readers.rs impl EntityReactionAccessTracker system ret=r
//@| ensures r == self.system,
//@fn src/react/entity_reaction_readers.rs impl EntityReactionAccessTracker source ret=r
//@| ensures r == self.reaction_source,
//@fn src/react/entity_reaction_readers.rs impl EntityReactionAccessTracker reaction_type ret=r
//@| ensures r == self.reaction_type,
//@endimpl

// ---------------- DespawnAccessTracker ----------------
//@struct src/react/despawn_reader.rs DespawnAccessTracker
//@impl src/react/despawn_reader.rs impl DespawnAccessTracker
//@fn src/react/despawn_reader.rs impl DespawnAccessTracker start
//@| ensures ({ let i = first_idx3(old(self).prepared@, reactor);
//@|     if i < 0 { *final(self) == *old(self) }
//@|     else { final(self).prepared@ == old(self).prepared@.remove(i) && final(self).currently_reacting && final(self).reaction_source == old(self).prepared@[i].1 && final(self).reactor_handle == Some(old(self).prepared@[i].2) } }),
//@liftposition let Some(pos) | start_position | (SystemCommand, Entity, ReactorHandle) |
//@lift| ensures r is None ==> first_idx3(verif_v@, reactor) == -1,
//@lift|         r is Some ==> (0 <= r->Some_0 < verif_v@.len() && first_idx3(verif_v@, reactor) == r->Some_0 && verif_v@[r->Some_0 as int].0 == reactor),
//@lift.pred| ensures b == (verif_x.0 == reactor),
//@lift.inv| verif_i <= verif_v@.len(), forall|j: int| 0 <= j < verif_i ==> (#[trigger] verif_v@[j]).0 != reactor,
//@lift.found| proof { lemma_first_idx3_some(verif_v@, reactor, verif_i as int); }
//@lift.none| proof { lemma_first_idx3_none(verif_v@, reactor); }
//@fn src/react/despawn_reader.rs impl DespawnAccessTracker prepare
//@| ensures final(self).prepared@ == old(self).prepared@.push((reactor, source, handle)),
//@|         final(self).currently_reacting == old(self).currently_reacting,
//@|         final(self).reaction_source == old(self).reaction_source,
//@|         final(self).reactor_handle == old(self).reactor_handle,
//@fn src/react/despawn_reader.rs impl DespawnAccessTracker end
//@| ensures !final(self).currently_reacting,
//@|         final(self).reactor_handle is None,
//@|         final(self).prepared@ == old(self).prepared@,
//@fn src/react/despawn_reader.rs impl DespawnAccessTracker is_reacting ret=r
//@| ensures r == self.currently_reacting,
//@fn src/react/despawn_reader.rs impl DespawnAccessTracker source ret=r
//@| ensures r == self.reaction_source,
//@endimpl
//@impl src/react/despawn_reader.rs impl Default for DespawnAccessTracker
//@fn src/react/despawn_reader.rs impl Default for DespawnAccessTracker default ret=r
//@| ensures !r.currently_reacting, r.prepared@.len() == 0, r.reactor_handle is None,
//@endimpl

// =================================================================================================================
// Property layer L1 (C03 / C12): per-system FIFO of parked metadata, for arbitrary interleavings and any length.
// A parked list is a Seq<(sys, meta)>.  `start_spec` is the contract of `*AccessTracker::start` (discharged on the
// real function by Kani unit K.tracker: claims the FIRST entry of that system, the rest keep their order).
// =================================================================================================================
pub open spec fn first_index(s: Seq<(int, int)>, r: int) -> int
    decreases s.len()
{
    if s.len() == 0 { -1 }
    else if s[0].0 == r { 0 }
    else { let t = first_index(s.subrange(1, s.len() as int), r); if t < 0 { -1 } else { t + 1 } }
}

pub open spec fn proj(s: Seq<(int, int)>, r: int) -> Seq<int>
    decreases s.len()
{
    if s.len() == 0 { Seq::empty() }
    else {
        let rest = proj(s.subrange(1, s.len() as int), r);
        if s[0].0 == r { seq![s[0].1] + rest } else { rest }
    }
}

/// Contract of `start(r)`: remove the first entry of system r (order of the rest preserved); no entry => unchanged.
pub open spec fn start_spec(s: Seq<(int, int)>, r: int) -> (Seq<(int, int)>, Option<int>) {
    let i = first_index(s, r);
    if i < 0 { (s, None) } else { (s.remove(i), Some(s[i].1)) }
}

pub proof fn lemma_first_index_bounds(s: Seq<(int, int)>, r: int)
    ensures -1 <= first_index(s, r) < s.len(),
            first_index(s, r) >= 0 ==> s[first_index(s, r)].0 == r,
            forall|j: int| 0 <= j < first_index(s, r) ==> (#[trigger] s[j]).0 != r,
            first_index(s, r) < 0 ==> forall|j: int| 0 <= j < s.len() ==> (#[trigger] s[j]).0 != r,
    decreases s.len()
{
    if s.len() > 0 && s[0].0 != r {
        let t = s.subrange(1, s.len() as int);
        lemma_first_index_bounds(t, r);
        assert forall|j: int| 0 <= j < first_index(s, r) implies (#[trigger] s[j]).0 != r by {
            if j > 0 { assert(s[j] == t[j - 1]); }
        }
        if first_index(s, r) < 0 {
            assert forall|j: int| 0 <= j < s.len() implies (#[trigger] s[j]).0 != r by {
                if j > 0 { assert(s[j] == t[j - 1]); }
            }
        }
    }
}

pub proof fn lemma_proj_push(s: Seq<(int, int)>, x: (int, int), q: int)
    ensures proj(s.push(x), q) == (if x.0 == q { proj(s, q).push(x.1) } else { proj(s, q) })
    decreases s.len()
{
    if s.len() == 0 {
        assert(s.push(x).subrange(1, 1) =~= Seq::<(int,int)>::empty());
        assert(proj(Seq::<(int,int)>::empty(), q) =~= Seq::<int>::empty());
        if x.0 == q { assert(seq![x.1] + Seq::<int>::empty() =~= Seq::<int>::empty().push(x.1)); }
    } else {
        let t = s.subrange(1, s.len() as int);
        lemma_proj_push(t, x, q);
        assert(s.push(x).subrange(1, s.len() as int + 1) =~= t.push(x));
        if s[0].0 == q {
            if x.0 == q { assert(seq![s[0].1] + proj(t, q).push(x.1) =~= (seq![s[0].1] + proj(t, q)).push(x.1)); }
        }
    }
}

/// prepare(x) appends to x's own per-system queue and leaves every other system's queue alone.
pub proof fn lemma_prepare_is_enqueue(s: Seq<(int, int)>, x: (int, int))
    ensures proj(s.push(x), x.0) == proj(s, x.0).push(x.1),
            forall|q: int| q != x.0 ==> proj(s.push(x), q) == proj(s, q),
{
    lemma_proj_push(s, x, x.0);
    assert forall|q: int| q != x.0 implies proj(s.push(x), q) == proj(s, q) by { lemma_proj_push(s, x, q); }
}

pub proof fn lemma_proj_remove(s: Seq<(int, int)>, i: int, q: int)
    requires 0 <= i < s.len()
    ensures s[i].0 != q ==> proj(s.remove(i), q) == proj(s, q),
    decreases s.len()
{
    let t = s.subrange(1, s.len() as int);
    if i == 0 {
        assert(s.remove(0) =~= t);
    } else {
        lemma_proj_remove(t, i - 1, q);
        assert(s.remove(i).subrange(1, s.len() as int - 1) =~= t.remove(i - 1));
        assert(s.remove(i)[0] == s[0]);
        assert(t[i - 1] == s[i]);
    }
}

pub proof fn lemma_proj_remove_first(s: Seq<(int, int)>, r: int)
    requires first_index(s, r) >= 0
    ensures proj(s, r).len() > 0,
            proj(s, r)[0] == s[first_index(s, r)].1,
            proj(s.remove(first_index(s, r)), r) == proj(s, r).subrange(1, proj(s, r).len() as int),
    decreases s.len()
{
    lemma_first_index_bounds(s, r);
    let t = s.subrange(1, s.len() as int);
    if s[0].0 == r {
        assert(s.remove(0) =~= t);
        assert((seq![s[0].1] + proj(t, r)).subrange(1, proj(s, r).len() as int) =~= proj(t, r));
    } else {
        lemma_first_index_bounds(t, r);
        lemma_proj_remove_first(t, r);
        let i = first_index(t, r);
        assert(s.remove(i + 1).subrange(1, s.len() as int - 1) =~= t.remove(i));
        assert(s.remove(i + 1)[0] == s[0]);
        assert(t[i] == s[i + 1]);
    }
}

/// L1: `start(r)` dequeues the OLDEST entry parked for r and leaves every other system's queue untouched,
/// whatever else is parked in between; with no entry for r it changes nothing.
pub proof fn lemma_start_is_dequeue(s: Seq<(int, int)>, r: int)
    ensures ({
        let (s2, got) = start_spec(s, r);
        &&& (proj(s, r).len() == 0 <==> got is None)
        &&& (got is Some ==> got == Some(proj(s, r)[0]) && proj(s2, r) == proj(s, r).subrange(1, proj(s, r).len() as int))
        &&& (got is None ==> s2 == s)
        &&& forall|q: int| q != r ==> proj(s2, q) == proj(s, q)
    })
{
    lemma_first_index_bounds(s, r);
    let i = first_index(s, r);
    if i >= 0 {
        lemma_proj_remove_first(s, r);
        assert forall|q: int| q != r implies proj(s.remove(i), q) == proj(s, q) by { lemma_proj_remove(s, i, q); }
    } else {
        lemma_proj_none(s, r);
    }
}

pub proof fn lemma_proj_none(s: Seq<(int, int)>, r: int)
    requires forall|j: int| 0 <= j < s.len() ==> (#[trigger] s[j]).0 != r
    ensures proj(s, r).len() == 0
    decreases s.len()
{
    if s.len() > 0 {
        let t = s.subrange(1, s.len() as int);
        assert forall|j: int| 0 <= j < t.len() implies (#[trigger] t[j]).0 != r by { assert(t[j] == s[j + 1]); }
        lemma_proj_none(t, r);
    }
}

} // verus!
fn main() {}
