// Unit `triggers` (C01, C06, C07, C18): the 11 trigger types of reaction_triggers_impl.rs and the registration systems.
// For every trigger type, verbatim and generic in the component / event / resource type:
//   * reactor_type() names (kind, key) - this is what a RevokeToken records;
//   * register(commands, handle) queues EXACTLY the system call(s) that register a CLONE of the handle into the table of
//     that same (kind, key) - one clone per trigger (C07) - and nothing for a despawn trigger on a dead entity (C18);
//   * the registration systems hand the handle to exactly the ReactCache::register_* / EntityReactors::insert of that kind.
// Trait-impl methods are placed in inherent impls here (Verus does not accept extra `ensures` on trait impl items); their
// text is the repo's.  The callees are ASSUMED (uninterpreted effects): ReactCache::register_* are proved in unit `cache`,
// EntityReactors::insert is discharged by K.entity_reactors.*.
use vstd::prelude::*;
use std::marker::PhantomData;
verus! {
//@include prelude.inc
//@enum src/react/utils.rs EntityReactionType
//@enum src/react/utils.rs ReactorType
//@enum src/react/utils.rs ReactorHandle noclone
// derive(Clone) on ReactorHandle: a clone is an equal value at spec level (the ref-count behind AutoDespawnSignal is not a
// spec-level property of the value; clones are COUNTED by the number of queued registrations).  ASSUMED.
impl Clone for ReactorHandle { #[verifier::external_body] fn clone(&self) -> (r: Self) ensures r == *self { unimplemented!() } }
pub trait ReactComponent {}
pub trait ReactResource {}
pub uninterp spec fn type_id_spec<T: ?Sized>() -> TypeId;
impl TypeId { #[verifier::external_body] pub fn of<T: ?Sized>() -> (t: TypeId) ensures t == type_id_spec::<T>() { unimplemented!() } }
pub struct In<T>(pub T);
pub type ResMut<'a, T> = &'a mut T;
pub type Mut<'a, T> = &'a mut T;

// ---- ASSUMED: Commands = handle to a command queue; what is queued is recorded ---------------------------------------
pub enum Queued { Syscall { sys: int, input: int }, InsertReactors { entity: Entity, reactors: EntityReactors } }
pub uninterp spec fn sys_id<S>(s: S) -> int;
pub uninterp spec fn enc<I>(i: I) -> int;
#[verifier::external_body] pub struct CommandsInner { _p: u8 }
pub type Commands<'w, 's> = &'s mut CommandsInner;
// EntityCommands<'a>: a handle to the same queue, focused on one entity
#[verifier::external_body] pub struct EntityCommandsInner { _p: u8 }
pub type EntityCommands<'a> = &'a mut EntityCommandsInner;
impl EntityCommandsInner {
    pub uninterp spec fn entity(&self) -> Entity;
    pub uninterp spec fn log(&self) -> Seq<Queued>;
    // EntityCommands::insert(bundle): queues the insertion of the component on this entity
    #[verifier::external_body]
    pub fn insert(&mut self, b: EntityReactors)
        ensures final(self).log() == old(self).log().push(Queued::InsertReactors { entity: old(self).entity(), reactors: b }), final(self).entity() == old(self).entity(),
    { unimplemented!() }
}
impl CommandsInner {
    pub uninterp spec fn log(&self) -> Seq<Queued>;
    /// entities that exist when the command is queued
    pub uninterp spec fn alive(&self) -> Set<Entity>;
    // CommandsSyscallExt::syscall: queues one command that runs `sys` with `input`
    #[verifier::external_body]
    pub fn syscall<I, S>(&mut self, input: I, sys: S)
        ensures final(self).log() == old(self).log().push(Queued::Syscall { sys: sys_id(sys), input: enc(input) }), final(self).alive() == old(self).alive(),
    { unimplemented!() }
    // Commands::get_entity: Some iff the entity exists now; queues nothing by itself
    #[verifier::external_body]
    pub fn get_entity(&mut self, e: Entity) -> (r: Option<EntityCommands<'_>>)
        ensures r is Some <==> old(self).alive().contains(e),
                r is Some ==> (r->Some_0.entity() == e && r->Some_0.log() == old(self).log() && final(self).log() == final(r->Some_0).log()),
                r is None ==> final(self).log() == old(self).log(),
                final(self).alive() == old(self).alive(),
    { unimplemented!() }
}
// ---- ASSUMED: the tables (effects only; meaning fixed by units `cache` and K.entity_reactors) --------------------------
#[verifier::external_body] pub struct ReactCache { _p: u8 }
pub uninterp spec fn reg_eff(c: ReactCache, table: ReactorType, h: ReactorHandle) -> ReactCache;
pub uninterp spec fn track_eff(c: ReactCache, comp: TypeId) -> ReactCache;
//@impl src/react/react_cache.rs impl ReactCache
//@extern src/react/react_cache.rs impl ReactCache track_removals
//@| ensures *final(self) == track_eff(*old(self), type_id_spec::<C>()),
//@extern src/react/react_cache.rs impl ReactCache register_insertion_reactor
//@| ensures *final(self) == reg_eff(*old(self), ReactorType::ComponentInsertion(type_id_spec::<C>()), handle),
//@extern src/react/react_cache.rs impl ReactCache register_mutation_reactor
//@| ensures *final(self) == reg_eff(*old(self), ReactorType::ComponentMutation(type_id_spec::<C>()), handle),
//@extern src/react/react_cache.rs impl ReactCache register_removal_reactor
//@| ensures *final(self) == reg_eff(*old(self), ReactorType::ComponentRemoval(type_id_spec::<C>()), handle),
//@extern src/react/react_cache.rs impl ReactCache register_any_entity_event_reactor
//@| ensures *final(self) == reg_eff(*old(self), ReactorType::AnyEntityEvent(type_id_spec::<E>()), handle),
//@extern src/react/react_cache.rs impl ReactCache register_resource_mutation_reactor
//@| ensures *final(self) == reg_eff(*old(self), ReactorType::ResourceMutation(type_id_spec::<R>()), handle),
//@extern src/react/react_cache.rs impl ReactCache register_broadcast_reactor
//@| ensures *final(self) == reg_eff(*old(self), ReactorType::Broadcast(type_id_spec::<E>()), handle),
//@endimpl
#[verifier::external_body] pub struct EntityReactors { _p: u8 }
pub uninterp spec fn er_default() -> EntityReactors;
pub uninterp spec fn er_insert_eff(er: EntityReactors, rtype: EntityReactionType, h: ReactorHandle) -> EntityReactors;
//@impl src/react/utils.rs impl EntityReactors
//@extern src/react/utils.rs impl EntityReactors insert
//@| ensures *final(self) == er_insert_eff(*old(self), rtype, handle),
//@endimpl
impl Default for EntityReactors { #[verifier::external_body] fn default() -> (r: Self) ensures r == er_default() { unimplemented!() } }
pub struct QueryEntityError;
#[verifier::external_body]
#[verifier::reject_recursive_types(D)]
pub struct QueryInner<D> { _p: PhantomData<D> }
pub type Query<'w, 's, D> = &'s mut QueryInner<D>;
impl<D> QueryInner<D> {
    pub uninterp spec fn view(&self) -> Map<Entity, EntityReactors>;
    #[verifier::external_body]
    pub fn get_mut(&mut self, e: Entity) -> (r: Result<Mut<'_, EntityReactors>, QueryEntityError>)
        ensures r is Ok <==> old(self).view().dom().contains(e),
                r is Ok ==> (*r->Ok_0 == old(self).view()[e] && final(self).view() == old(self).view().insert(e, *final(r->Ok_0))),
                r is Err ==> final(self).view() == old(self).view(),
    { unimplemented!() }
}

// ---- the registration systems (the functions named in the queued syscalls) ---------------------------------------------
//@fn src/react/reaction_triggers_impl.rs - track_removals
//@| ensures *final(cache) == track_eff(*old(cache), type_id_spec::<C>()),
//@fn src/react/reaction_triggers_impl.rs - register_insertion_reactor
//@| ensures *final(cache) == reg_eff(*old(cache), ReactorType::ComponentInsertion(type_id_spec::<C>()), verif_in.0),
//@fn src/react/reaction_triggers_impl.rs - register_mutation_reactor
//@| ensures *final(cache) == reg_eff(*old(cache), ReactorType::ComponentMutation(type_id_spec::<C>()), verif_in.0),
//@fn src/react/reaction_triggers_impl.rs - register_removal_reactor
//@| ensures *final(cache) == reg_eff(track_eff(*old(cache), type_id_spec::<C>()), ReactorType::ComponentRemoval(type_id_spec::<C>()), verif_in.0),
//@fn src/react/reaction_triggers_impl.rs - register_any_entity_event_reactor
//@| ensures *final(cache) == reg_eff(*old(cache), ReactorType::AnyEntityEvent(type_id_spec::<E>()), verif_in.0),
//@fn src/react/reaction_triggers_impl.rs - register_resource_mutation_reactor
//@| ensures *final(cache) == reg_eff(*old(cache), ReactorType::ResourceMutation(type_id_spec::<R>()), verif_in.0),
//@fn src/react/reaction_triggers_impl.rs - register_broadcast_reactor
//@| ensures *final(cache) == reg_eff(*old(cache), ReactorType::Broadcast(type_id_spec::<E>()), verif_in.0),

//@fn src/react/reaction_triggers_impl.rs - register_entity_reactor
//@| ensures ({ let (rtype, entity, handle) = verif_in.0; let q = old(entity_reactors).view();
//@|     if q.dom().contains(entity) {
//@|         final(entity_reactors).view() == q.insert(entity, er_insert_eff(q[entity], rtype, handle)) && final(commands).log() == old(commands).log()
//@|     } else if old(commands).alive().contains(entity) {
//@|         final(entity_reactors).view() == q && final(commands).log() == old(commands).log().push(Queued::InsertReactors { entity: entity, reactors: er_insert_eff(er_default(), rtype, handle) })
//@|     } else { final(entity_reactors).view() == q && final(commands).log() == old(commands).log() } }),

// ---- register_reactors (react_commands.rs): mode -> handle -> the whole bundle is registered with that ONE handle (C07) -----
//@enum src/react/react_commands.rs ReactorMode
pub struct Res<'w, T> { pub value: &'w T }
impl<'w, T> core::ops::Deref for Res<'w, T> { type Target = T; fn deref(&self) -> (r: &T) ensures *r == *self.value { self.value } }
//@impl src/react/react_commands.rs impl ReactorMode
//@fn src/react/react_commands.rs impl ReactorMode prepare ret=h
//@| ensures *self == ReactorMode::Persistent ==> h == ReactorHandle::Persistent(sys_command),
//@|         *self != ReactorMode::Persistent ==> (h matches ReactorHandle::AutoDespawn(s) && s.spec_entity() == sys_command.0),
//@endimpl
pub uninterp spec fn bundle_eff<T>(log: Seq<Queued>, triggers: T, handle: ReactorHandle) -> Seq<Queued>;
// ReactionTriggerBundle::register_triggers: each member of the bundle registers itself with `handle` (tuple impls are macro-generated
// and call the member's `register`, verified above for every trigger type); here: an uninterpreted effect of (bundle, handle). ASSUMED.
pub trait ReactionTriggerBundle: Sized {
    fn register_triggers(self, commands: &mut Commands, handle: &ReactorHandle)
        ensures (*final(commands)).log() == bundle_eff((*old(commands)).log(), self, *handle), *final(*final(commands)) == *final(*old(commands));
}
//@fn src/react/react_commands.rs - register_reactors
//@| ensures ({ let (triggers, syscommand, mode) = verif_in.0;
//@|     exists|h: ReactorHandle| #![trigger bundle_eff(old(commands).log(), triggers, h)] final(commands).log() == bundle_eff(old(commands).log(), triggers, h)
//@|         && (mode == ReactorMode::Persistent ==> h == ReactorHandle::Persistent(syscommand))
//@|         && (mode != ReactorMode::Persistent ==> (h matches ReactorHandle::AutoDespawn(s) && s.spec_entity() == syscommand.0)) }),

// ---- the triggers ---------------------------------------------------------------------------------------------------
pub open spec fn one_syscall<S, I>(before: Seq<Queued>, after: Seq<Queued>, sys: S, input: I) -> bool { after == before.push(Queued::Syscall { sys: sys_id(sys), input: enc(input) }) }

//@struct src/react/reaction_triggers_impl.rs InsertionTrigger
impl<C: ReactComponent> InsertionTrigger<C> {
//@fn src/react/reaction_triggers_impl.rs impl ReactionTrigger for InsertionTrigger reactor_type ret=r
//@| ensures r == ReactorType::ComponentInsertion(type_id_spec::<C>()),
//@fn src/react/reaction_triggers_impl.rs impl ReactionTrigger for InsertionTrigger register
//@| ensures one_syscall((*old(commands)).log(), (*final(commands)).log(), register_insertion_reactor::<C>, *handle), *final(*final(commands)) == *final(*old(commands)),
}
//@struct src/react/reaction_triggers_impl.rs MutationTrigger
impl<C: ReactComponent> MutationTrigger<C> {
//@fn src/react/reaction_triggers_impl.rs impl ReactionTrigger for MutationTrigger reactor_type ret=r
//@| ensures r == ReactorType::ComponentMutation(type_id_spec::<C>()),
//@fn src/react/reaction_triggers_impl.rs impl ReactionTrigger for MutationTrigger register
//@| ensures one_syscall((*old(commands)).log(), (*final(commands)).log(), register_mutation_reactor::<C>, *handle), *final(*final(commands)) == *final(*old(commands)),
}
//@struct src/react/reaction_triggers_impl.rs RemovalTrigger
impl<C: ReactComponent> RemovalTrigger<C> {
//@fn src/react/reaction_triggers_impl.rs impl ReactionTrigger for RemovalTrigger reactor_type ret=r
//@| ensures r == ReactorType::ComponentRemoval(type_id_spec::<C>()),
//@fn src/react/reaction_triggers_impl.rs impl ReactionTrigger for RemovalTrigger register
//@| ensures one_syscall((*old(commands)).log(), (*final(commands)).log(), register_removal_reactor::<C>, *handle), *final(*final(commands)) == *final(*old(commands)),
}
//@struct src/react/reaction_triggers_impl.rs EntityInsertionTrigger
impl<C: ReactComponent> EntityInsertionTrigger<C> {
//@fn src/react/reaction_triggers_impl.rs impl ReactionTrigger for EntityInsertionTrigger reactor_type ret=r
//@| ensures r == ReactorType::EntityInsertion(self.0, type_id_spec::<C>()),
//@fn src/react/reaction_triggers_impl.rs impl ReactionTrigger for EntityInsertionTrigger register
//@| ensures one_syscall((*old(commands)).log(), (*final(commands)).log(), register_entity_reactor, (EntityReactionType::Insertion(type_id_spec::<C>()), self.0, *handle)), *final(*final(commands)) == *final(*old(commands)),
}
//@struct src/react/reaction_triggers_impl.rs EntityMutationTrigger
impl<C: ReactComponent> EntityMutationTrigger<C> {
//@fn src/react/reaction_triggers_impl.rs impl ReactionTrigger for EntityMutationTrigger reactor_type ret=r
//@| ensures r == ReactorType::EntityMutation(self.0, type_id_spec::<C>()),
//@fn src/react/reaction_triggers_impl.rs impl ReactionTrigger for EntityMutationTrigger register
//@| ensures one_syscall((*old(commands)).log(), (*final(commands)).log(), register_entity_reactor, (EntityReactionType::Mutation(type_id_spec::<C>()), self.0, *handle)), *final(*final(commands)) == *final(*old(commands)),
}
//@struct src/react/reaction_triggers_impl.rs EntityRemovalTrigger
impl<C: ReactComponent> EntityRemovalTrigger<C> {
//@fn src/react/reaction_triggers_impl.rs impl ReactionTrigger for EntityRemovalTrigger reactor_type ret=r
//@| ensures r == ReactorType::EntityRemoval(self.0, type_id_spec::<C>()),
//@fn src/react/reaction_triggers_impl.rs impl ReactionTrigger for EntityRemovalTrigger register
//@| ensures (*final(commands)).log() == (*old(commands)).log().push(Queued::Syscall { sys: sys_id(track_removals::<C>), input: enc(()) })
//@|             .push(Queued::Syscall { sys: sys_id(register_entity_reactor), input: enc((EntityReactionType::Removal(type_id_spec::<C>()), self.0, *handle)) }),
//@|         *final(*final(commands)) == *final(*old(commands)),
}
//@struct src/react/reaction_triggers_impl.rs EntityEventTrigger
impl<E: Send + Sync + 'static> EntityEventTrigger<E> {
//@fn src/react/reaction_triggers_impl.rs impl ReactionTrigger for EntityEventTrigger reactor_type ret=r
//@| ensures r == ReactorType::EntityEvent(self.0, type_id_spec::<E>()),
//@fn src/react/reaction_triggers_impl.rs impl ReactionTrigger for EntityEventTrigger register
//@| ensures one_syscall((*old(commands)).log(), (*final(commands)).log(), register_entity_reactor, (EntityReactionType::Event(type_id_spec::<E>()), self.0, *handle)), *final(*final(commands)) == *final(*old(commands)),
}
//@struct src/react/reaction_triggers_impl.rs AnyEntityEventTrigger
impl<E: Send + Sync + 'static> AnyEntityEventTrigger<E> {
//@fn src/react/reaction_triggers_impl.rs impl ReactionTrigger for AnyEntityEventTrigger reactor_type ret=r
//@| ensures r == ReactorType::AnyEntityEvent(type_id_spec::<E>()),
//@fn src/react/reaction_triggers_impl.rs impl ReactionTrigger for AnyEntityEventTrigger register
//@| ensures one_syscall((*old(commands)).log(), (*final(commands)).log(), register_any_entity_event_reactor::<E>, *handle), *final(*final(commands)) == *final(*old(commands)),
}
//@struct src/react/reaction_triggers_impl.rs ResourceMutationTrigger
impl<R: ReactResource> ResourceMutationTrigger<R> {
//@fn src/react/reaction_triggers_impl.rs impl ReactionTrigger for ResourceMutationTrigger reactor_type ret=r
//@| ensures r == ReactorType::ResourceMutation(type_id_spec::<R>()),
//@fn src/react/reaction_triggers_impl.rs impl ReactionTrigger for ResourceMutationTrigger register
//@| ensures one_syscall((*old(commands)).log(), (*final(commands)).log(), register_resource_mutation_reactor::<R>, *handle), *final(*final(commands)) == *final(*old(commands)),
}
//@struct src/react/reaction_triggers_impl.rs BroadcastTrigger
impl<E: Send + Sync + 'static> BroadcastTrigger<E> {
//@fn src/react/reaction_triggers_impl.rs impl ReactionTrigger for BroadcastTrigger reactor_type ret=r
//@| ensures r == ReactorType::Broadcast(type_id_spec::<E>()),
//@fn src/react/reaction_triggers_impl.rs impl ReactionTrigger for BroadcastTrigger register
//@| ensures one_syscall((*old(commands)).log(), (*final(commands)).log(), register_broadcast_reactor::<E>, *handle), *final(*final(commands)) == *final(*old(commands)),
}
// register_despawn_reactor (the system) uses World::resource_scope with a `&mut World` closure - outside Verus' subset; only its
// name is needed here (it is what DespawnTrigger::register queues).
#[verifier::external_body] fn register_despawn_reactor(verif_in: In<(Entity, ReactorHandle)>) { unimplemented!() }
//@struct src/react/reaction_triggers_impl.rs DespawnTrigger
impl DespawnTrigger {
//@fn src/react/reaction_triggers_impl.rs impl ReactionTrigger for DespawnTrigger reactor_type ret=r
//@| ensures r == ReactorType::Despawn(self.0),
//@fn src/react/reaction_triggers_impl.rs impl ReactionTrigger for DespawnTrigger register
//@| ensures (*old(commands)).alive().contains(self.0) ==> one_syscall((*old(commands)).log(), (*final(commands)).log(), register_despawn_reactor, (self.0, *handle)),
//@|         !(*old(commands)).alive().contains(self.0) ==> (*final(commands)).log() == (*old(commands)).log(),
//@|         *final(*final(commands)) == *final(*old(commands)),
}

} // verus!
fn main() {}
