// Unit `world_reactors` (C16, C06): Reactor<T> (world_reactor.rs) and EntityReactor<T> (entity_world_reactor.rs), verbatim and
// generic in the reactor type.  Contract (from the property): adding triggers registers them, in PERSISTENT mode (never
// ref-counted, hence never collected), for THE system command held by the reactor's resource - no new system is spawned,
// none is despawned; removing triggers revokes exactly a token for that same system command; an EntityReactor additionally
// attaches the local data to the trigger entity when adding (nothing at all if that entity does not exist) and, when
// removing, queues one local-data cleanup per unique entity of the removed bundle; a missing reactor resource => false and
// nothing queued.  ASSUMED: Commands / ReactCommands = handles to one queue; with/revoke/syscall/try_insert append a record.
use vstd::prelude::*;
use std::marker::PhantomData;
use std::sync::Arc;
verus! {
//@include prelude.inc
//@enum src/react/utils.rs ReactorType
//@struct src/react/utils.rs RevokeToken noclone
// derive(Clone) on RevokeToken (Arc<[ReactorType]> + id): a clone is an equal value.  ASSUMED.
impl Clone for RevokeToken { #[verifier::external_body] fn clone(&self) -> (r: Self) ensures r == *self { unimplemented!() } }
//@enum src/react/react_commands.rs ReactorMode
pub struct Res<'w, T> { pub value: &'w T }
impl<'w, T> core::ops::Deref for Res<'w, T> { type Target = T; fn deref(&self) -> (r: &T) ensures *r == *self.value { self.value } }
pub type ResMut<'w, T> = &'w mut T;
pub trait ReactionTriggerBundle: Copy {}
pub trait EntityTriggerBundle: Sized { spec fn bundle_of(entity: Entity) -> Self; fn new_bundle(entity: Entity) -> (r: Self) ensures r == Self::bundle_of(entity); }
#[verifier::external_body] pub struct SystemCommandCallback { _p: u8 }
pub enum Queued {
    With { triggers: int, sys: SystemCommand, mode: ReactorMode },
    Revoke { token: RevokeToken },
    RunCommand { sys: SystemCommand },
    TryInsert { entity: Entity, bundle: int },
    Syscall { sys: int, input: int },
    RemoveLocal { entity: Entity },
}
pub uninterp spec fn enc<I>(i: I) -> int;
pub uninterp spec fn sys_id<S>(s: S) -> int;
pub uninterp spec fn token_of<T>(sys: SystemCommand, triggers: T) -> RevokeToken;
pub uninterp spec fn unique_entities(t: RevokeToken) -> Seq<Entity>;
#[verifier::external_body] pub struct CommandsInner<'w> { _p: PhantomData<&'w ()> }
pub type Commands<'w, 's> = &'s mut CommandsInner<'w>;
pub type ReactCommands<'w, 's> = &'s mut CommandsInner<'w>;
#[verifier::external_body] pub struct EntityCommandsInner { _p: u8 }
pub type EntityCommands<'a> = &'a mut EntityCommandsInner;
impl EntityCommandsInner {
    pub uninterp spec fn entity(&self) -> Entity;
    pub uninterp spec fn log(&self) -> Seq<Queued>;
    pub uninterp spec fn alive(&self) -> Set<Entity>;
    // EntityCommands::id(): the entity this handle is focused on
    #[verifier::external_body]
    pub fn id(&self) -> (r: Entity) ensures r == self.entity() { unimplemented!() }
    // EntityCommands::commands(): the underlying Commands handle (same queue)
    #[verifier::external_body]
    pub fn commands(&mut self) -> (r: Commands<'_, '_>)
        ensures r.log() == old(self).log(), r.alive() == old(self).alive(), final(self).log() == final(r).log(), final(self).entity() == old(self).entity(), final(self).alive() == old(self).alive(),
    { unimplemented!() }
    // EntityCommands::remove::<B>(): queues the removal of component B from this entity (B = the reactor's local data here)
    #[verifier::external_body]
    pub fn remove<B>(&mut self) -> (r: &mut Self)
        ensures final(self).log() == old(self).log().push(Queued::RemoveLocal { entity: old(self).entity() }), final(self).entity() == old(self).entity(),
    { unimplemented!() }
    #[verifier::external_body]
    pub fn try_insert<B>(&mut self, b: B) -> (r: &mut Self)
        ensures final(self).log() == old(self).log().push(Queued::TryInsert { entity: old(self).entity(), bundle: enc(b) }), final(self).entity() == old(self).entity(),
    { unimplemented!() }
}
impl<'w> CommandsInner<'w> {
    pub uninterp spec fn log(&self) -> Seq<Queued>;
    pub uninterp spec fn alive(&self) -> Set<Entity>;
    #[verifier::external_body]
    pub fn react(&mut self) -> (r: ReactCommands<'w, '_>) ensures r.log() == old(self).log(), r.alive() == old(self).alive(), final(self).log() == final(r).log(), final(self).alive() == old(self).alive() { unimplemented!() }
    // ReactCommands::with: queues ONE registration of `triggers` for `sys_command` in `mode` (unit react_commands / triggers)
    #[verifier::external_body]
    pub fn with<B: ReactionTriggerBundle>(&mut self, triggers: B, sys_command: SystemCommand, mode: ReactorMode) -> (r: Option<RevokeToken>)
        ensures final(self).log() == old(self).log().push(Queued::With { triggers: enc(triggers), sys: sys_command, mode: mode }), final(self).alive() == old(self).alive(),
    { unimplemented!() }
    // ReactCommands::revoke: queues ONE revocation of the token (unit react_commands / revoke)
    #[verifier::external_body]
    pub fn revoke(&mut self, token: RevokeToken) ensures final(self).log() == old(self).log().push(Queued::Revoke { token: token }), final(self).alive() == old(self).alive() { unimplemented!() }
    // Commands::queue(SystemCommand): queues one run of that system command
    #[verifier::external_body]
    pub fn queue(&mut self, c: SystemCommand) ensures final(self).log() == old(self).log().push(Queued::RunCommand { sys: c }), final(self).alive() == old(self).alive() { unimplemented!() }
    #[verifier::external_body]
    pub fn syscall<I, S>(&mut self, input: I, sys: S) ensures final(self).log() == old(self).log().push(Queued::Syscall { sys: sys_id(sys), input: enc(input) }), final(self).alive() == old(self).alive() { unimplemented!() }
    // Commands::entity(e): a handle focused on e (no existence check; the queued command is a no-op for a dead entity)
    #[verifier::external_body]
    pub fn entity(&mut self, e: Entity) -> (r: EntityCommands<'_>)
        ensures r.entity() == e && r.log() == old(self).log() && final(self).log() == final(r).log(), final(self).alive() == old(self).alive(),
    { unimplemented!() }
    #[verifier::external_body]
    pub fn get_entity(&mut self, e: Entity) -> (r: Option<EntityCommands<'_>>)
        ensures r is Some <==> old(self).alive().contains(e),
                r is Some ==> (r->Some_0.entity() == e && r->Some_0.log() == old(self).log() && final(self).log() == final(r->Some_0).log()),
                r is None ==> final(self).log() == old(self).log(),
                final(self).alive() == old(self).alive(),
    { unimplemented!() }
}
impl RevokeToken {
    #[verifier::external_body]
    pub fn new_from<B: ReactionTriggerBundle>(sys_command: SystemCommand, triggers: B) -> (r: Self) ensures r == token_of(sys_command, triggers), r.id == sys_command { unimplemented!() }
    // RevokeToken::iter_unique_entities: each entity named by the token exactly once (closure-based; not opened here)
    #[verifier::external_body]
    pub fn iter_unique_entities(&self) -> (r: EntIter) ensures r.elems() == unique_entities(*self), r.pos() == 0 { unimplemented!() }
}
#[verifier::external_body] pub struct EntIter { _p: u8 }
impl EntIter { pub uninterp spec fn elems(&self) -> Seq<Entity>; pub uninterp spec fn pos(&self) -> nat; }
impl Iterator for EntIter { type Item = Entity; #[verifier::external_body] fn next(&mut self) -> (r: Option<Entity>) { unimplemented!() } }
impl vstd::std_specs::iter::IteratorSpecImpl for EntIter {
    open spec fn obeys_prophetic_iter_laws(&self) -> bool { true }
    open spec fn remaining(&self) -> Seq<Entity> { self.elems().subrange(self.pos() as int, self.elems().len() as int) }
    open spec fn will_return_none(&self) -> bool { true }
    open spec fn decrease(&self) -> Option<nat> { Some((self.elems().len() - self.pos()) as nat) }
    open spec fn peek(&self, index: int) -> Option<Entity> { if 0 <= index < self.elems().len() - self.pos() { Some(self.elems()[self.pos() + index]) } else { None } }
}

// ---- world reactors ---------------------------------------------------------------------------------------------------
pub trait WorldReactor: Sized { type StartingTriggers: ReactionTriggerBundle; type Triggers: ReactionTriggerBundle; }
//@struct src/react/world_reactor.rs WorldReactorRes
//@struct src/react/world_reactor.rs Reactor
//@impl src/react/world_reactor.rs impl Reactor
//@fn src/react/world_reactor.rs impl Reactor add ret=r
//@| ensures r == (self.inner is Some), *final(*final(c)) == *final(*old(c)),
//@|         self.inner is Some ==> (*final(c)).log() == (*old(c)).log().push(Queued::With { triggers: enc(triggers), sys: self.inner->Some_0.value.sys_command, mode: ReactorMode::Persistent }),
//@|         self.inner is None ==> (*final(c)).log() == (*old(c)).log(),
//@fn src/react/world_reactor.rs impl Reactor add_starting_triggers ret=r
//@| ensures r == (self.inner is Some), *final(*final(c)) == *final(*old(c)),
//@|         self.inner is Some ==> (*final(c)).log() == (*old(c)).log().push(Queued::With { triggers: enc(triggers), sys: self.inner->Some_0.value.sys_command, mode: ReactorMode::Persistent }),
//@|         self.inner is None ==> (*final(c)).log() == (*old(c)).log(),
//@fn src/react/world_reactor.rs impl Reactor remove ret=r
//@| ensures r == (self.inner is Some), *final(*final(c)) == *final(*old(c)),
//@|         self.inner is Some ==> (*final(c)).log() == (*old(c)).log().push(Queued::Revoke { token: token_of(self.inner->Some_0.value.sys_command, triggers) }),
//@|         self.inner is None ==> (*final(c)).log() == (*old(c)).log(),
//@fn src/react/world_reactor.rs impl Reactor run ret=r
//@| ensures r == (self.inner is Some), *final(*final(commands)) == *final(*old(commands)),
//@|         self.inner is Some ==> (*final(commands)).log() == (*old(commands)).log().push(Queued::RunCommand { sys: self.inner->Some_0.value.sys_command }),
//@|         self.inner is None ==> (*final(commands)).log() == (*old(commands)).log(),
//@endimpl

// ---- entity world reactors ----------------------------------------------------------------------------------------------
pub trait EntityWorldReactor: Sized { type Triggers: EntityTriggerBundle + ReactionTriggerBundle; type Local; }
//@struct src/react/entity_world_reactor.rs EntityWorldReactorRes
//@struct src/react/entity_world_reactor.rs EntityWorldLocal
//@impl src/react/entity_world_reactor.rs impl EntityWorldLocal
//@fn src/react/entity_world_reactor.rs impl EntityWorldLocal new ret=r
//@| ensures r.data == data,
//@endimpl
// ---- cleanup_reactor_data (the system EntityReactor::remove queues per entity): the local data is removed iff the entity's
// registration list holds NO entry of this reactor any more; an entity without list is left alone.  `find` closure lifted (rule 23).
pub struct In<T>(pub T);
pub struct QueryEntityError;
#[verifier::external_body] pub struct EntityReactors { _p: u8 }
#[verifier::external_body] pub struct RIter<'a> { _p: PhantomData<&'a u8> }
impl<'a> RIter<'a> { pub uninterp spec fn elems(&self) -> Seq<SystemCommand>; pub uninterp spec fn pos(&self) -> nat; }
impl<'a> Iterator for RIter<'a> { type Item = SystemCommand; #[verifier::external_body] fn next(&mut self) -> (r: Option<SystemCommand>) { unimplemented!() } }
impl<'a> vstd::std_specs::iter::IteratorSpecImpl for RIter<'a> {
    open spec fn obeys_prophetic_iter_laws(&self) -> bool { true }
    open spec fn remaining(&self) -> Seq<SystemCommand> { self.elems().subrange(self.pos() as int, self.elems().len() as int) }
    open spec fn will_return_none(&self) -> bool { true }
    open spec fn decrease(&self) -> Option<nat> { Some((self.elems().len() - self.pos()) as nat) }
    open spec fn peek(&self, index: int) -> Option<SystemCommand> { if 0 <= index < self.elems().len() - self.pos() { Some(self.elems()[self.pos() + index]) } else { None } }
}
impl EntityReactors {
    /// the reactor ids of the entity's registrations, in list order
    pub uninterp spec fn ids(&self) -> Seq<SystemCommand>;
    // ASSUMED (discharged on the real SmallVec-based code by K.entity_reactors.queries.*)
    #[verifier::external_body]
    pub fn iter_reactors(&self) -> (r: RIter<'_>) ensures r.elems() == self.ids(), r.pos() == 0 { unimplemented!() }
}
pub struct With<T>(pub PhantomData<T>);
#[verifier::external_body] #[verifier::accept_recursive_types(D)] #[verifier::accept_recursive_types(F)]
pub struct Query<'w, 's, D, F = ()> { _p: PhantomData<(&'w (), &'s (), D, F)> }
impl<'w, 's, D, F> Query<'w, 's, D, F> {
    pub uninterp spec fn lists(&self) -> Map<Entity, EntityReactors>;
    /// entities matched by the query (meaningful for filter queries)
    pub uninterp spec fn matched(&self) -> Set<Entity>;
    #[verifier::external_body]
    pub fn contains(&self, e: Entity) -> (b: bool) ensures b == self.matched().contains(e) { unimplemented!() }
    #[verifier::external_body]
    pub fn get(&self, e: Entity) -> (r: Result<&EntityReactors, QueryEntityError>)
        ensures r is Ok <==> self.lists().dom().contains(e), r is Ok ==> *r->Ok_0 == self.lists()[e] { unimplemented!() }
}
//@fn src/react/entity_world_reactor.rs - cleanup_reactor_data
//@| ensures ({ let (id, entity) = verif_in.0;
//@|     final(commands).log() == (if entities.lists().dom().contains(entity) && !entities.lists()[entity].ids().contains(id)
//@|         { old(commands).log().push(Queued::RemoveLocal { entity: entity }) } else { old(commands).log() }) }),
//@liftfind if reactor.iter_reactors() | cleanup_find | SystemCommand | RIter<'_> | id: SystemCommand
//@lift| requires verif_iter.pos() == 0,
//@lift| ensures r is Some <==> verif_iter.elems().contains(id),
//@lift.pred| ensures b == (*verif_x == id),
//@lift.inv| forall|j: int| 0 <= j < verif_it.index@ ==> verif_it.seq()[j] != id, verif_it.seq() =~= verif_iter.elems(),
//@lift.found| assert(verif_iter.elems()[verif_it.index@ as int] == id);
pub open spec fn cleanups<T: EntityWorldReactor>(id: SystemCommand, ents: Seq<Entity>) -> Seq<Queued> {
    ents.map_values(|e: Entity| Queued::Syscall { sys: sys_id(cleanup_reactor_data::<T>), input: enc((id, e)) })
}
//@struct src/react/entity_world_reactor.rs EntityReactor
//@impl src/react/entity_world_reactor.rs impl EntityReactor
//@fn src/react/entity_world_reactor.rs impl EntityReactor add ret=r
//@| ensures r == (self.inner is Some && (*old(c)).alive().contains(trigger_entity)), *final(*final(c)) == *final(*old(c)),
//@|         r ==> (*final(c)).log() == (*old(c)).log()
//@|             .push(Queued::TryInsert { entity: trigger_entity, bundle: enc(EntityWorldLocal::<T> { data: data }) })
//@|             .push(Queued::With { triggers: enc(<T::Triggers as EntityTriggerBundle>::bundle_of(trigger_entity)), sys: self.inner->Some_0.sys_command, mode: ReactorMode::Persistent }),
//@|         !r ==> (*final(c)).log() == (*old(c)).log(),
//@fn src/react/entity_world_reactor.rs impl EntityReactor remove ret=r
//@| ensures r == (self.inner is Some), *final(*final(c)) == *final(*old(c)),
//@|         self.inner is Some ==> ({ let tok = token_of(self.inner->Some_0.sys_command, triggers);
//@|             (*final(c)).log() == (*old(c)).log().push(Queued::Revoke { token: tok }) + cleanups::<T>(tok.id, unique_entities(tok)) }),
//@|         self.inner is None ==> (*final(c)).log() == (*old(c)).log(),
//@loopvar 1 it
//@loop 1 | invariant (*c).log() == (*old(c)).log().push(Queued::Revoke { token: token }) + cleanups::<T>(token.id, unique_entities(token)).subrange(0, it.index@ as int), *final(*c) == *final(*old(c)), token == token_of(inner.sys_command, triggers),
//@fn src/react/entity_world_reactor.rs impl EntityReactor system ret=r
//@| ensures r == (if self.inner is Some { Some(self.inner->Some_0.sys_command) } else { None::<SystemCommand> }),
//@endimpl

// ---- ReactEntityCommandsExt::add_world_reactor (extensions.rs): queues ONE call of a system that does exactly `reactor.add(commands, this entity, data)`.
// The method lives in `impl ReactEntityCommandsExt for EntityCommands<'a>` (Self = a reference alias here): emitted as a free function (rule 27);
// its system closure is lifted (rule 28).  The method's obligation is the assertion at its end (Verus takes no `ensures` on trait-impl methods anyway).
//@fn src/react/extensions.rs impl ReactEntityCommandsExt for EntityCommands add_world_reactor
//@| ensures final(verif_self).log() == old(verif_self).log().push(Queued::Syscall { sys: sys_id(add_world_reactor_sys::<T>), input: enc((old(verif_self).entity(), data)) }),
//@|         *final(*final(verif_self)) == *final(*old(verif_self)),
//@selfrename EntityCommands<'_>
//@liftsys verif_self.commands().syscall | add_world_reactor_sys | <T: EntityWorldReactor> | ::<T>
//@lift| ensures ({ let (id, data) = verif_in.0; let r = (reactor.inner is Some && old(c).alive().contains(id));
//@lift|     &&& (r ==> final(c).log() == old(c).log()
//@lift|             .push(Queued::TryInsert { entity: id, bundle: enc(EntityWorldLocal::<T> { data: data }) })
//@lift|             .push(Queued::With { triggers: enc(<T::Triggers as EntityTriggerBundle>::bundle_of(id)), sys: reactor.inner->Some_0.sys_command, mode: ReactorMode::Persistent }))
//@lift|     &&& (!r ==> final(c).log() == old(c).log()) }),

} // verus!
fn main() {}
