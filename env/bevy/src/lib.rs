//! Stub `bevy`: the assumed contract of the Bevy 0.15 API surface used by bevy_cobweb, as a small
//! executable single-threaded ECS. Not a model of bevy_cobweb: the real `/repo/src` files compile against it.
#![allow(clippy::all, dead_code, unused_variables)]
extern crate self as bevy;

use core::any::{Any, TypeId};
use core::cell::{Cell, UnsafeCell};
use core::marker::PhantomData;
use core::ops::{Deref, DerefMut};
use std::collections::VecDeque;

pub use bevy_shim_macros as macros;

//---------------------------------------------------------------------------------------------------------------
// Entities
//---------------------------------------------------------------------------------------------------------------

#[derive(Copy, Clone, Debug, PartialEq, Eq, Hash, PartialOrd, Ord)]
pub struct Entity { index: u32, generation: u32 }

impl Entity {
    pub const PLACEHOLDER: Entity = Entity { index: u32::MAX, generation: 1 };
    pub fn from_raw(index: u32) -> Entity { Entity { index, generation: 1 } }
    pub fn index(&self) -> u32 { self.index }
    pub fn generation(&self) -> u32 { self.generation }
    /// Verification-only constructor (harnesses need arbitrary ids).
    #[doc(hidden)] pub fn verif_new(index: u32, generation: u32) -> Entity { Entity { index, generation } }
}

pub trait Resource: Send + Sync + 'static {}
pub trait Component: Send + Sync + 'static {}
pub trait SystemSet: 'static {}

pub trait FromWorld { fn from_world(world: &mut World) -> Self; }
impl<T: Default> FromWorld for T { fn from_world(_: &mut World) -> Self { T::default() } }

/// Entity table entry: small and `Copy`. Components live in ONE flat table of the world (`World::comps`), not inside
/// the entity entry: containers nested inside containers are what makes CBMC blow up (DESIGN 2, measured).
#[derive(Copy, Clone)]
struct Slot { generation: u32, alive: bool, parent: Option<Entity> }
impl Slot { fn new() -> Slot { Slot { generation: 1, alive: true, parent: None } } }
pub const ENT_PREALLOC: usize = if cfg!(kani) { 8 } else { 64 };
pub const COMP_PREALLOC: usize = if cfg!(kani) { 8 } else { 64 };

/// Entity allocator. `reserve` works through `&self` (as Bevy's atomic reservation does).
pub struct Entities { slots: UnsafeCell<Vec<Slot>> }

impl Entities {
    fn slots(&self) -> &Vec<Slot> { unsafe { &*self.slots.get() } }
    #[allow(clippy::mut_from_ref)]
    fn slots_mut(&self) -> &mut Vec<Slot> { unsafe { &mut *self.slots.get() } }
    pub fn reserve_entity(&self) -> Entity {
        let slots = self.slots_mut();
        slots.push(Slot::new());
        Entity { index: (slots.len() - 1) as u32, generation: 1 }
    }
    pub fn contains(&self, e: Entity) -> bool {
        let s = self.slots();
        (e.index as usize) < s.len() && s[e.index as usize].alive && s[e.index as usize].generation == e.generation
    }
}

pub trait Bundle: Send + Sync + 'static { fn insert_into(self, world: &mut World, e: Entity); }
impl<C: Component> Bundle for C { fn insert_into(self, world: &mut World, e: Entity) { world.insert_component(e, self); } }
impl Bundle for () { fn insert_into(self, _: &mut World, _: Entity) {} }
impl<A: Bundle, B: Bundle> Bundle for (A, B) { fn insert_into(self, w: &mut World, e: Entity) { self.0.insert_into(w, e); self.1.insert_into(w, e); } }
impl<A: Bundle, B: Bundle, C: Bundle> Bundle for (A, B, C) { fn insert_into(self, w: &mut World, e: Entity) { self.0.insert_into(w, e); self.1.insert_into(w, e); self.2.insert_into(w, e); } }

//---------------------------------------------------------------------------------------------------------------
// Command queue (mirrors bevy_ecs::world::command_queue: cursor-based, per-command flush)
//---------------------------------------------------------------------------------------------------------------

/// A queued command keeps its concrete type (so harnesses can look at what was queued); applying is unchanged.
pub trait AnyCommand { fn apply_boxed(self: Box<Self>, world: &mut World); fn as_any(&self) -> &dyn Any; fn cmd_type(&self) -> TypeId; }
impl<C: Command> AnyCommand for C {
    fn apply_boxed(self: Box<Self>, world: &mut World) { (*self).apply(world) }
    fn as_any(&self) -> &dyn Any { self }
    fn cmd_type(&self) -> TypeId { TypeId::of::<C>() }
}
type BoxedCommand = Box<dyn AnyCommand>;

#[derive(Default)]
pub struct CommandQueue { cmds: Vec<Option<BoxedCommand>>, cursor: usize }

impl CommandQueue {
    pub fn push<C: Command>(&mut self, c: C) { self.cmds.push(Some(Box::new(c))); }
    pub fn is_empty(&self) -> bool { self.cursor >= self.cmds.len() }
    /// Number of commands queued and not yet applied (verification aid).
    #[doc(hidden)] pub fn verif_pending(&self) -> usize { self.cmds.len() - self.cursor }
    /// The i-th pending command, if it is a `C` (verification aid).
    #[doc(hidden)] pub fn verif_peek<C: Command>(&self, i: usize) -> Option<&C> {
        self.cmds.get(self.cursor + i).and_then(|c| c.as_ref()).and_then(|c| c.as_any().downcast_ref::<C>())
    }
    /// `CommandQueue::apply`: flush the world's own queue, then apply this (system-local) queue.
    pub fn apply(&mut self, world: &mut World) {
        world.flush_commands();
        unsafe { apply_or_drop_queued(self as *mut CommandQueue, world); }
    }
}

/// `RawCommandQueue::apply_or_drop_queued` with `world = Some(..)`.
unsafe fn apply_or_drop_queued(q: *mut CommandQueue, world: &mut World) {
    let start = (*q).cursor;
    let stop = (*q).cmds.len();
    let mut local = start;
    (*q).cursor = stop;
    while local < stop {
        let cmd = (&mut (*q).cmds)[local].take();
        local += 1;
        if let Some(cmd) = cmd {
            // verification aid: commands of the captured type are recorded instead of applied (off by default)
            if world.verif_capture == Some(cmd.cmd_type()) { world.verif_captured.push(cmd); continue; }
            cmd.apply_boxed(world);
            world.flush();
        }
    }
    // every entry in [start, ..) has been taken (is None): pop and forget them instead of `truncate`, whose drop glue for
    // `Option<Box<dyn AnyCommand>>` would make CBMC consider the drop of every command type of the crate here
    while (*q).cmds.len() > start { let x = (*q).cmds.pop(); core::mem::forget(x); }
    (*q).cursor = start;
}

pub trait Command: Send + 'static { fn apply(self, world: &mut World); }
impl<F: FnOnce(&mut World) + Send + 'static> Command for F { fn apply(self, world: &mut World) { self(world) } }

//---------------------------------------------------------------------------------------------------------------
// World
//---------------------------------------------------------------------------------------------------------------

pub struct World {
    resources: Vec<(TypeId, Box<dyn Any>)>,
    entities: Entities,
    command_queue: Box<CommandQueue>,
    /// Flat component table: (entity index, component type, value); `None` = free entry.
    comps: Vec<Option<(u32, TypeId, Box<dyn Any>)>>,
    /// (component type, entity) removal log, read by `RemovedComponents` with per-reader cursors.
    removed: Vec<(TypeId, Entity)>,
    /// verification aid (see `verif_capture_commands`): None in normal operation.
    verif_capture: Option<TypeId>,
    verif_captured: Vec<BoxedCommand>,
}

impl Default for World { fn default() -> Self { World::new() } }

pub struct Mut<'a, T: ?Sized> { value: &'a mut T }
impl<'a, T: ?Sized> Mut<'a, T> { pub fn into_inner(self) -> &'a mut T { self.value } }
impl<'a, T: ?Sized> Deref for Mut<'a, T> { type Target = T; fn deref(&self) -> &T { self.value } }
impl<'a, T: ?Sized> DerefMut for Mut<'a, T> { fn deref_mut(&mut self) -> &mut T { self.value } }

#[derive(Debug)] pub struct EntityFetchErrorImpl;

impl World {
    pub fn new() -> World {
        World { resources: Vec::new(), entities: Entities { slots: UnsafeCell::new(Vec::with_capacity(ENT_PREALLOC)) }, command_queue: Box::new(CommandQueue::default()), comps: Vec::with_capacity(COMP_PREALLOC), removed: Vec::new(), verif_capture: None, verif_captured: Vec::new() }
    }

    // resources
    fn res_pos(&self, id: TypeId) -> Option<usize> { self.resources.iter().position(|(t, _)| *t == id) }
    pub fn contains_resource<R: Resource>(&self) -> bool { self.res_pos(TypeId::of::<R>()).is_some() }
    pub fn insert_resource<R: Resource>(&mut self, r: R) {
        match self.res_pos(TypeId::of::<R>()) {
            Some(p) => {
                // replace: the old value is dropped as an `R` (the key says so), not through the `dyn Any` vtable - a dynamic
                // drop makes CBMC consider the drop glue of every resource type of the crate at this site.
                let old = core::mem::replace(&mut self.resources[p].1, Box::new(r));
                unsafe { drop(Box::from_raw(Box::into_raw(old) as *mut R)); }
            }
            None => self.resources.push((TypeId::of::<R>(), Box::new(r))),
        }
    }
    pub fn init_resource<R: Resource + FromWorld>(&mut self) {
        if self.contains_resource::<R>() { return; }
        let r = R::from_world(self);
        self.insert_resource(r);
    }
    pub fn remove_resource<R: Resource>(&mut self) -> Option<R> {
        let p = self.res_pos(TypeId::of::<R>())?;
        let (_, b) = self.resources.remove(p);
        // typed unboxing (the key says the value is an `R`); `downcast().ok()` would statically contain a dynamic drop
        Some(unsafe { *Box::from_raw(Box::into_raw(b) as *mut R) })
    }
    pub fn get_resource<R: Resource>(&self) -> Option<&R> {
        let p = self.res_pos(TypeId::of::<R>())?;
        self.resources[p].1.downcast_ref::<R>()
    }
    pub fn get_resource_mut<R: Resource>(&mut self) -> Option<Mut<'_, R>> {
        let p = self.res_pos(TypeId::of::<R>())?;
        self.resources[p].1.downcast_mut::<R>().map(|value| Mut { value })
    }
    pub fn resource<R: Resource>(&self) -> &R { self.get_resource::<R>().expect("resource missing") }
    pub fn resource_mut<R: Resource>(&mut self) -> Mut<'_, R> { self.get_resource_mut::<R>().expect("resource missing") }
    pub fn get_resource_or_insert_with<R: Resource>(&mut self, f: impl FnOnce() -> R) -> Mut<'_, R> {
        if !self.contains_resource::<R>() { self.insert_resource(f()); }
        self.resource_mut::<R>()
    }
    pub fn resource_scope<R: Resource, U>(&mut self, f: impl FnOnce(&mut World, Mut<R>) -> U) -> U {
        let mut r = self.remove_resource::<R>().expect("resource missing in resource_scope");
        let out = f(self, Mut { value: &mut r });
        self.insert_resource(r);
        out
    }
    pub fn is_resource_added<R: Resource>(&self) -> bool { false }
    pub fn is_resource_changed<R: Resource>(&self) -> bool { false }

    // entities
    pub fn entities(&self) -> &Entities { &self.entities }
    pub fn spawn_empty(&mut self) -> EntityWorldMut<'_> { let e = self.entities.reserve_entity(); EntityWorldMut { world: self, entity: e } }
    pub fn spawn<B: Bundle>(&mut self, b: B) -> EntityWorldMut<'_> {
        let e = self.entities.reserve_entity();
        b.insert_into(self, e);
        EntityWorldMut { world: self, entity: e }
    }
    pub fn get_entity(&self, e: Entity) -> Result<EntityRef<'_>, EntityFetchErrorImpl> {
        if self.entities.contains(e) { Ok(EntityRef { world: self, entity: e }) } else { Err(EntityFetchErrorImpl) }
    }
    pub fn get_entity_mut(&mut self, e: Entity) -> Result<EntityWorldMut<'_>, EntityFetchErrorImpl> {
        if self.entities.contains(e) { Ok(EntityWorldMut { world: self, entity: e }) } else { Err(EntityFetchErrorImpl) }
    }
    pub fn entity_mut(&mut self, e: Entity) -> EntityWorldMut<'_> { self.get_entity_mut(e).expect("entity missing") }
    fn slot(&self, e: Entity) -> Option<&Slot> { if self.entities.contains(e) { Some(&self.entities.slots()[e.index as usize]) } else { None } }
    fn slot_mut(&mut self, e: Entity) -> Option<&mut Slot> { if self.entities.contains(e) { Some(&mut self.entities.slots_mut()[e.index as usize]) } else { None } }
    fn comp_pos(&self, e: Entity, id: TypeId) -> Option<usize> {
        let mut i = 0;
        while i < self.comps.len() { if let Some((idx, t, _)) = &self.comps[i] { if *idx == e.index && *t == id { return Some(i); } } i += 1; }
        None
    }
    pub(crate) fn insert_component<C: Component>(&mut self, e: Entity, c: C) {
        if !self.entities.contains(e) { return; }
        let entry = Some((e.index, TypeId::of::<C>(), Box::new(c) as Box<dyn Any>));
        if let Some(p) = self.comp_pos(e, TypeId::of::<C>()) {
            // typed drop of the replaced value (see insert_resource)
            if let Some((_, _, old)) = core::mem::replace(&mut self.comps[p], entry) { unsafe { drop(Box::from_raw(Box::into_raw(old) as *mut C)); } }
            return;
        }
        let mut i = 0;
        while i < self.comps.len() { if self.comps[i].is_none() { self.comps[i] = entry; return; } i += 1; }
        self.comps.push(entry);
    }
    pub(crate) fn remove_component<C: Component>(&mut self, e: Entity) -> Option<C> {
        if !self.entities.contains(e) { return None; }
        let p = self.comp_pos(e, TypeId::of::<C>())?;
        let (_, _, b) = self.comps[p].take().unwrap();
        self.removed.push((TypeId::of::<C>(), e));
        Some(unsafe { *Box::from_raw(Box::into_raw(b) as *mut C) })
    }
    pub fn get<C: Component>(&self, e: Entity) -> Option<&C> {
        if !self.entities.contains(e) { return None; }
        let p = self.comp_pos(e, TypeId::of::<C>())?;
        self.comps[p].as_ref().unwrap().2.downcast_ref::<C>()
    }
    pub fn get_mut<C: Component>(&mut self, e: Entity) -> Option<Mut<'_, C>> {
        if !self.entities.contains(e) { return None; }
        let p = self.comp_pos(e, TypeId::of::<C>())?;
        self.comps[p].as_mut().unwrap().2.downcast_mut::<C>().map(|value| Mut { value })
    }
    pub fn despawn(&mut self, e: Entity) -> bool {
        if !self.entities.contains(e) { return false; }
        { let slot = &mut self.entities.slots_mut()[e.index as usize]; slot.alive = false; slot.parent = None; }
        // children become orphans (non-recursive despawn)
        let n = self.entities.slots().len();
        let mut k = 0;
        while k < n { let sl = &mut self.entities.slots_mut()[k]; if sl.parent == Some(e) { sl.parent = None; } k += 1; }
        // components are removed and dropped one by one (Drop impls run here: DespawnTracker, payloads, captured state)
        let mut i = 0;
        while i < self.comps.len() {
            let hit = match &self.comps[i] { Some((idx, _, _)) => *idx == e.index, None => false };
            if hit { let (_, t, b) = self.comps[i].take().unwrap(); self.removed.push((t, e)); drop(b); }
            i += 1;
        }
        true
    }
    /// Despawn `e` and all of its descendants (iterative marking: no recursion).
    #[cfg(not(kani))]
    pub(crate) fn despawn_recursive(&mut self, e: Entity) {
        if !self.entities.contains(e) { return; }
        let n = self.entities.slots().len();
        let mut doomed: Vec<bool> = Vec::with_capacity(n);
        let mut k = 0;
        while k < n { doomed.push(k == e.index as usize); k += 1; }
        // a descendant chain is at most n long
        let mut pass = 0;
        while pass < n {
            let mut changed = false;
            let mut k = 0;
            while k < n {
                let sl = self.entities.slots()[k];
                if sl.alive && !doomed[k] { if let Some(p) = sl.parent { if doomed[p.index as usize] && self.entities.contains(p) { doomed[k] = true; changed = true; } } }
                k += 1;
            }
            if !changed { break; }
            pass += 1;
        }
        let mut k = 0;
        while k < n {
            if doomed[k] && k != e.index as usize { let g = self.entities.slots()[k].generation; self.despawn(Entity { index: k as u32, generation: g }); }
            k += 1;
        }
        self.despawn(e);
    }
    /// Under Kani: hierarchies of depth <= 1 only (one loop, CBMC cost); a grandchild is a harness bound ("capacity exceeded").
    #[cfg(kani)]
    pub(crate) fn despawn_recursive(&mut self, e: Entity) {
        if !self.entities.contains(e) { return; }
        let n = self.entities.slots().len();
        let mut k = 0;
        while k < n {
            let sl = self.entities.slots()[k];
            if sl.alive && sl.parent == Some(e) {
                let child = Entity { index: k as u32, generation: sl.generation };
                let mut j = 0;
                while j < n { let g = self.entities.slots()[j]; if g.alive && g.parent == Some(child) { panic!("stub hierarchy capacity exceeded (depth > 1 under Kani)"); } j += 1; }
                self.despawn(child);
            }
            k += 1;
        }
        self.despawn(e);
    }
    pub fn set_parent(&mut self, child: Entity, parent: Entity) {
        if !self.entities.contains(child) || !self.entities.contains(parent) { return; }
        self.entities.slots_mut()[child.index as usize].parent = Some(parent);
    }
    pub fn entity_count(&self) -> usize { self.entities.slots().iter().filter(|s| s.alive).count() }

    // commands
    pub fn commands(&mut self) -> Commands<'_, '_> {
        Commands { queue: &mut *self.command_queue as *mut CommandQueue, entities: &self.entities as *const Entities, _p: PhantomData }
    }
    pub fn flush_commands(&mut self) {
        if !self.command_queue.is_empty() {
            let q = &mut *self.command_queue as *mut CommandQueue;
            unsafe { apply_or_drop_queued(q, self); }
        }
    }
    pub fn flush(&mut self) { self.flush_commands(); }
    pub fn as_unsafe_world_cell(&mut self) -> ecs::world::unsafe_world_cell::UnsafeWorldCell<'_> {
        ecs::world::unsafe_world_cell::UnsafeWorldCell { world: self as *mut World, _p: PhantomData }
    }
    pub fn clear_trackers(&mut self) { self.removed.clear(); }

    // ---- verification aids (never used by bevy_cobweb itself) ----
    /// From now on, commands of type `C` reaching the apply loop are recorded instead of applied.
    #[doc(hidden)] pub fn verif_capture_commands<C: Command>(&mut self) { self.verif_capture = Some(TypeId::of::<C>()); }
    #[doc(hidden)] pub fn verif_captured_len(&self) -> usize { self.verif_captured.len() }
    #[doc(hidden)] pub fn verif_captured<C: Command>(&self, i: usize) -> Option<&C> { self.verif_captured.get(i).and_then(|c| c.as_any().downcast_ref::<C>()) }
    #[doc(hidden)] pub fn verif_world_queue(&self) -> &CommandQueue { &self.command_queue }
    #[doc(hidden)] pub fn verif_is_alive(&self, e: Entity) -> bool { self.entities.contains(e) }
}

pub struct EntityRef<'w> { world: &'w World, entity: Entity }
impl<'w> EntityRef<'w> {
    pub fn id(&self) -> Entity { self.entity }
    pub fn get<C: Component>(&self) -> Option<&'w C> { self.world.get::<C>(self.entity) }
    pub fn contains<C: Component>(&self) -> bool { self.get::<C>().is_some() }
}

pub struct EntityWorldMut<'w> { world: &'w mut World, entity: Entity }
impl<'w> EntityWorldMut<'w> {
    pub fn id(&self) -> Entity { self.entity }
    pub fn get<C: Component>(&self) -> Option<&C> { self.world.get::<C>(self.entity) }
    pub fn get_mut<C: Component>(&mut self) -> Option<Mut<'_, C>> { self.world.get_mut::<C>(self.entity) }
    pub fn contains<C: Component>(&self) -> bool { self.world.get::<C>(self.entity).is_some() }
    pub fn insert<B: Bundle>(&mut self, b: B) -> &mut Self { b.insert_into(self.world, self.entity); self }
    pub fn remove<C: Component>(&mut self) -> &mut Self { let _ = self.world.remove_component::<C>(self.entity); self }
    pub fn despawn(self) { self.world.despawn(self.entity); }
    pub fn set_parent(&mut self, parent: Entity) -> &mut Self { self.world.set_parent(self.entity, parent); self }
}
pub trait DespawnRecursiveExt { fn despawn_recursive(self); }
impl<'w> DespawnRecursiveExt for EntityWorldMut<'w> { fn despawn_recursive(self) { self.world.despawn_recursive(self.entity); } }

//---------------------------------------------------------------------------------------------------------------
// Commands
//---------------------------------------------------------------------------------------------------------------

pub struct Commands<'w, 's> { queue: *mut CommandQueue, entities: *const Entities, _p: PhantomData<(&'w (), &'s ())> }
unsafe impl Send for Commands<'_, '_> {}
unsafe impl Sync for Commands<'_, '_> {}

impl<'w, 's> Commands<'w, 's> {
    #[doc(hidden)] pub fn verif_new(queue: &'s mut CommandQueue, world: &'w World) -> Self { Commands { queue: queue as *mut CommandQueue, entities: &world.entities as *const Entities, _p: PhantomData } }
    /// Verification aid: the queue this handle writes to.
    #[doc(hidden)] pub fn verif_queue(&self) -> *const CommandQueue { self.queue as *const CommandQueue }
    pub fn reborrow(&mut self) -> Commands<'w, '_> { Commands { queue: self.queue, entities: self.entities, _p: PhantomData } }
    pub fn queue<C: Command>(&mut self, c: C) { unsafe { (*self.queue).push(c); } }
    pub fn spawn_empty(&mut self) -> EntityCommands<'_> {
        let e = unsafe { (*self.entities).reserve_entity() };
        EntityCommands { entity: e, commands: self.reborrow() }
    }
    pub fn spawn<B: Bundle>(&mut self, b: B) -> EntityCommands<'_> {
        let e = unsafe { (*self.entities).reserve_entity() };
        self.queue(SpawnCommand { entity: e, bundle: b });
        EntityCommands { entity: e, commands: self.reborrow() }
    }
    pub fn get_entity(&mut self, e: Entity) -> Option<EntityCommands<'_>> {
        if unsafe { (*self.entities).contains(e) } { Some(EntityCommands { entity: e, commands: self.reborrow() }) } else { None }
    }
    pub fn entity(&mut self, e: Entity) -> EntityCommands<'_> { self.get_entity(e).expect("entity missing for Commands::entity") }
    pub fn insert_resource<R: Resource>(&mut self, r: R) { self.queue(move |w: &mut World| w.insert_resource(r)); }
    pub fn remove_resource<R: Resource>(&mut self) { self.queue(move |w: &mut World| { let _ = w.remove_resource::<R>(); }); }
}

/// `Commands::spawn` as a typed command (so that harnesses can read back what was spawned; applying = inserting the bundle).
pub struct SpawnCommand<B: Bundle> { pub entity: Entity, pub bundle: B }
impl<B: Bundle> Command for SpawnCommand<B> { fn apply(self, world: &mut World) { self.bundle.insert_into(world, self.entity); } }

pub struct EntityCommands<'a> { entity: Entity, commands: Commands<'a, 'a> }
impl<'a> EntityCommands<'a> {
    pub fn id(&self) -> Entity { self.entity }
    pub fn commands(&mut self) -> Commands<'_, '_> { self.commands.reborrow() }
    /// Bevy: panics at apply time if the entity is gone.
    pub fn insert<B: Bundle>(&mut self, b: B) -> &mut Self {
        let e = self.entity;
        self.commands.queue(move |w: &mut World| { assert!(w.entities.contains(e), "insert on despawned entity"); b.insert_into(w, e); });
        self
    }
    pub fn try_insert<B: Bundle>(&mut self, b: B) -> &mut Self {
        let e = self.entity;
        self.commands.queue(move |w: &mut World| { if w.entities.contains(e) { b.insert_into(w, e); } });
        self
    }
    pub fn remove<C: Component>(&mut self) -> &mut Self {
        let e = self.entity;
        self.commands.queue(move |w: &mut World| { let _ = w.remove_component::<C>(e); });
        self
    }
    pub fn despawn(&mut self) { let e = self.entity; self.commands.queue(move |w: &mut World| { w.despawn(e); }); }
    pub fn despawn_recursive(&mut self) { let e = self.entity; self.commands.queue(move |w: &mut World| { w.despawn_recursive(e); }); }
}

//---------------------------------------------------------------------------------------------------------------
// Systems
//---------------------------------------------------------------------------------------------------------------

pub trait SystemInput: Sized {
    type Param<'i>: SystemInput;
    type Inner<'i>;
    fn wrap(this: Self::Inner<'_>) -> Self::Param<'_>;
}
impl SystemInput for () { type Param<'i> = (); type Inner<'i> = (); fn wrap(_this: Self::Inner<'_>) -> Self::Param<'_> {} }
pub struct In<T>(pub T);
impl<T: 'static> SystemInput for In<T> { type Param<'i> = In<T>; type Inner<'i> = T; fn wrap(this: Self::Inner<'_>) -> Self::Param<'_> { In(this) } }
pub type SystemIn<'a, S> = <<S as System>::In as SystemInput>::Inner<'a>;

pub trait System: Send + Sync + 'static {
    type In: SystemInput;
    type Out;
    fn is_exclusive(&self) -> bool;
    /// # Safety: caller has exclusive world access.
    unsafe fn run_unsafe(&mut self, input: SystemIn<'_, Self>, world: ecs::world::unsafe_world_cell::UnsafeWorldCell) -> Self::Out;
    fn run(&mut self, input: SystemIn<'_, Self>, world: &mut World) -> Self::Out {
        let cell = world.as_unsafe_world_cell();
        self.update_archetype_component_access(cell);
        let out = unsafe { self.run_unsafe(input, cell) };
        self.apply_deferred(world);
        out
    }
    fn apply_deferred(&mut self, world: &mut World);
    fn initialize(&mut self, world: &mut World);
    fn update_archetype_component_access(&mut self, world: ecs::world::unsafe_world_cell::UnsafeWorldCell);
}
pub type BoxedSystem<In = (), Out = ()> = Box<dyn System<In = In, Out = Out>>;

pub trait IntoSystem<In: SystemInput, Out, Marker>: Sized {
    type System: System<In = In, Out = Out>;
    fn into_system(this: Self) -> Self::System;
}
impl<T: System> IntoSystem<T::In, T::Out, ()> for T { type System = T; fn into_system(this: T) -> T { this } }

pub struct IsFunctionSystem;
pub struct IsExclusiveFunctionSystem;
pub struct HasSystemInput;
pub struct HasExclusiveSystemInput;

/// # Safety: see Bevy.
pub unsafe trait SystemParam: Sized {
    type State: Send + Sync + 'static;
    type Item<'w, 's>: SystemParam<State = Self::State>;
    fn init_state(world: &mut World) -> Self::State;
    fn apply(_state: &mut Self::State, _world: &mut World) {}
    /// # Safety: exclusive world access.
    unsafe fn get_param<'w, 's>(state: &'s mut Self::State, world: ecs::world::unsafe_world_cell::UnsafeWorldCell<'w>) -> Self::Item<'w, 's>;
}
pub type SystemParamItem<'w, 's, P> = <P as SystemParam>::Item<'w, 's>;

pub trait SystemParamFunction<Marker>: Send + Sync + 'static {
    type In: SystemInput;
    type Out;
    type Param: SystemParam;
    fn run(&mut self, input: <Self::In as SystemInput>::Inner<'_>, param_value: SystemParamItem<Self::Param>) -> Self::Out;
}

pub struct FunctionSystem<Marker, F: SystemParamFunction<Marker>> {
    func: F,
    state: Option<<F::Param as SystemParam>::State>,
    _m: PhantomData<fn() -> Marker>,
}
impl<Marker: 'static, F: SystemParamFunction<Marker>> System for FunctionSystem<Marker, F> {
    type In = F::In;
    type Out = F::Out;
    fn is_exclusive(&self) -> bool { false }
    unsafe fn run_unsafe(&mut self, input: SystemIn<'_, Self>, world: ecs::world::unsafe_world_cell::UnsafeWorldCell) -> Self::Out {
        let state = self.state.as_mut().expect("system not initialized");
        let params = F::Param::get_param(state, world);
        self.func.run(input, params)
    }
    fn apply_deferred(&mut self, world: &mut World) {
        let state = self.state.as_mut().expect("system not initialized");
        F::Param::apply(state, world);
    }
    fn initialize(&mut self, world: &mut World) { if self.state.is_none() { self.state = Some(F::Param::init_state(world)); } }
    fn update_archetype_component_access(&mut self, _: ecs::world::unsafe_world_cell::UnsafeWorldCell) {}
}
impl<Marker: 'static, F: SystemParamFunction<Marker>> IntoSystem<F::In, F::Out, (IsFunctionSystem, Marker)> for F {
    type System = FunctionSystem<Marker, F>;
    fn into_system(func: F) -> Self::System { FunctionSystem { func, state: None, _m: PhantomData } }
}

macro_rules! impl_system_function {
    ($($param: ident),*) => {
        #[allow(non_snake_case)]
        impl<Out, Func, $($param: SystemParam),*> SystemParamFunction<fn($($param,)*) -> Out> for Func
        where
            Func: Send + Sync + 'static,
            for <'a> &'a mut Func: FnMut($($param),*) -> Out + FnMut($(SystemParamItem<$param>),*) -> Out,
            Out: 'static
        {
            type In = ();
            type Out = Out;
            type Param = ($($param,)*);
            #[inline]
            fn run(&mut self, _input: (), param_value: SystemParamItem< ($($param,)*)>) -> Out {
                fn call_inner<Out, $($param,)*>(mut f: impl FnMut($($param,)*)->Out, $($param: $param,)*)->Out{ f($($param,)*) }
                let ($($param,)*) = param_value;
                call_inner(self, $($param),*)
            }
        }
        #[allow(non_snake_case)]
        impl<In, Out, Func, $($param: SystemParam),*> SystemParamFunction<(HasSystemInput, fn(In, $($param,)*) -> Out)> for Func
        where
            Func: Send + Sync + 'static,
            for <'a> &'a mut Func: FnMut(In, $($param),*) -> Out + FnMut(In::Param<'_>, $(SystemParamItem<$param>),*) -> Out,
            In: SystemInput + 'static,
            Out: 'static
        {
            type In = In;
            type Out = Out;
            type Param = ($($param,)*);
            #[inline]
            fn run(&mut self, input: In::Inner<'_>, param_value: SystemParamItem< ($($param,)*)>) -> Out {
                fn call_inner<In: SystemInput, Out, $($param,)*>(_: PhantomData<In>, mut f: impl FnMut(In::Param<'_>, $($param,)*)->Out, input: In::Inner<'_>, $($param: $param,)*)->Out{ f(In::wrap(input), $($param,)*) }
                let ($($param,)*) = param_value;
                call_inner(PhantomData::<In>, self, input, $($param),*)
            }
        }
    };
}
bevy_shim_macros::all_tuples!(impl_system_function, 0, 8, F);

macro_rules! impl_param_tuple {
    ($($param: ident),*) => {
        #[allow(non_snake_case, unused_variables, clippy::unused_unit)]
        unsafe impl<$($param: SystemParam),*> SystemParam for ($($param,)*) {
            type State = ($($param::State,)*);
            type Item<'w, 's> = ($($param::Item::<'w, 's>,)*);
            fn init_state(world: &mut World) -> Self::State { ($($param::init_state(world),)*) }
            fn apply(state: &mut Self::State, world: &mut World) { let ($($param,)*) = state; $($param::apply($param, world);)* }
            unsafe fn get_param<'w, 's>(state: &'s mut Self::State, world: ecs::world::unsafe_world_cell::UnsafeWorldCell<'w>) -> Self::Item<'w, 's> {
                let ($($param,)*) = state;
                ($($param::get_param($param, world),)*)
            }
        }
    };
}
bevy_shim_macros::all_tuples!(impl_param_tuple, 0, 8, P);

// exclusive function systems: FnMut(&mut World) and FnMut(In, &mut World)
pub trait ExclusiveSystemParamFunction<Marker>: Send + Sync + 'static {
    type In: SystemInput;
    type Out;
    fn run(&mut self, world: &mut World, input: <Self::In as SystemInput>::Inner<'_>) -> Self::Out;
}
impl<Out: 'static, Func> ExclusiveSystemParamFunction<fn() -> Out> for Func
where Func: Send + Sync + 'static, for<'a> &'a mut Func: FnMut(&mut World) -> Out
{
    type In = ();
    type Out = Out;
    fn run(&mut self, world: &mut World, _: ()) -> Out {
        fn call_inner<Out>(mut f: impl FnMut(&mut World) -> Out, w: &mut World) -> Out { f(w) }
        call_inner(self, world)
    }
}
impl<In: SystemInput + 'static, Out: 'static, Func> ExclusiveSystemParamFunction<(HasExclusiveSystemInput, fn(In) -> Out)> for Func
where Func: Send + Sync + 'static, for<'a> &'a mut Func: FnMut(In, &mut World) -> Out + FnMut(In::Param<'_>, &mut World) -> Out
{
    type In = In;
    type Out = Out;
    fn run(&mut self, world: &mut World, input: In::Inner<'_>) -> Out {
        fn call_inner<In: SystemInput, Out>(_: PhantomData<In>, mut f: impl FnMut(In::Param<'_>, &mut World) -> Out, w: &mut World, input: In::Inner<'_>) -> Out { f(In::wrap(input), w) }
        call_inner(PhantomData::<In>, self, world, input)
    }
}
pub struct ExclusiveFunctionSystem<Marker, F: ExclusiveSystemParamFunction<Marker>> { func: F, _m: PhantomData<fn() -> Marker> }
impl<Marker: 'static, F: ExclusiveSystemParamFunction<Marker>> System for ExclusiveFunctionSystem<Marker, F> {
    type In = F::In;
    type Out = F::Out;
    fn is_exclusive(&self) -> bool { true }
    unsafe fn run_unsafe(&mut self, _: SystemIn<'_, Self>, _: ecs::world::unsafe_world_cell::UnsafeWorldCell) -> Self::Out { panic!("Cannot run exclusive systems with a shared World reference") }
    fn run(&mut self, input: SystemIn<'_, Self>, world: &mut World) -> Self::Out {
        let out = self.func.run(world, input);
        world.flush();
        out
    }
    fn apply_deferred(&mut self, _: &mut World) {}
    fn initialize(&mut self, _: &mut World) {}
    fn update_archetype_component_access(&mut self, _: ecs::world::unsafe_world_cell::UnsafeWorldCell) {}
}
impl<Marker: 'static, F: ExclusiveSystemParamFunction<Marker>> IntoSystem<F::In, F::Out, (IsExclusiveFunctionSystem, Marker)> for F {
    type System = ExclusiveFunctionSystem<Marker, F>;
    fn into_system(func: F) -> Self::System { ExclusiveFunctionSystem { func, _m: PhantomData } }
}

//---------------------------------------------------------------------------------------------------------------
// System params
//---------------------------------------------------------------------------------------------------------------

pub struct Res<'w, T: Resource> { value: &'w T }
impl<'w, T: Resource> Deref for Res<'w, T> { type Target = T; fn deref(&self) -> &T { self.value } }
impl<'w, T: Resource> Res<'w, T> { pub fn into_inner(self) -> &'w T { self.value } #[doc(hidden)] pub fn verif_new(value: &'w T) -> Self { Res { value } } }
unsafe impl<T: Resource> SystemParam for Res<'_, T> {
    type State = ();
    type Item<'w, 's> = Res<'w, T>;
    fn init_state(_: &mut World) {}
    unsafe fn get_param<'w, 's>(_: &'s mut (), world: ecs::world::unsafe_world_cell::UnsafeWorldCell<'w>) -> Res<'w, T> {
        Res { value: world.world().get_resource::<T>().expect("Res<T>: resource missing") }
    }
}
unsafe impl<T: Resource> SystemParam for Option<Res<'_, T>> {
    type State = ();
    type Item<'w, 's> = Option<Res<'w, T>>;
    fn init_state(_: &mut World) {}
    unsafe fn get_param<'w, 's>(_: &'s mut (), world: ecs::world::unsafe_world_cell::UnsafeWorldCell<'w>) -> Option<Res<'w, T>> {
        world.world().get_resource::<T>().map(|value| Res { value })
    }
}
pub struct ResMut<'w, T: Resource> { value: &'w mut T }
impl<'w, T: Resource> Deref for ResMut<'w, T> { type Target = T; fn deref(&self) -> &T { self.value } }
impl<'w, T: Resource> DerefMut for ResMut<'w, T> { fn deref_mut(&mut self) -> &mut T { self.value } }
impl<'w, T: Resource> ResMut<'w, T> { pub fn into_inner(self) -> &'w mut T { self.value } #[doc(hidden)] pub fn verif_new(value: &'w mut T) -> Self { ResMut { value } } }
unsafe impl<T: Resource> SystemParam for ResMut<'_, T> {
    type State = ();
    type Item<'w, 's> = ResMut<'w, T>;
    fn init_state(_: &mut World) {}
    unsafe fn get_param<'w, 's>(_: &'s mut (), world: ecs::world::unsafe_world_cell::UnsafeWorldCell<'w>) -> ResMut<'w, T> {
        ResMut { value: world.world_mut().get_resource_mut::<T>().expect("ResMut<T>: resource missing").into_inner() }
    }
}
unsafe impl<T: Resource> SystemParam for Option<ResMut<'_, T>> {
    type State = ();
    type Item<'w, 's> = Option<ResMut<'w, T>>;
    fn init_state(_: &mut World) {}
    unsafe fn get_param<'w, 's>(_: &'s mut (), world: ecs::world::unsafe_world_cell::UnsafeWorldCell<'w>) -> Option<ResMut<'w, T>> {
        world.world_mut().get_resource_mut::<T>().map(|m| ResMut { value: m.into_inner() })
    }
}

pub trait DetectChanges {
    fn is_added(&self) -> bool;
    fn is_changed(&self) -> bool;
    fn last_changed(&self) -> ecs::component::Tick;
}
impl<T: Resource> DetectChanges for Res<'_, T> { fn is_added(&self) -> bool { false } fn is_changed(&self) -> bool { false } fn last_changed(&self) -> ecs::component::Tick { ecs::component::Tick(0) } }
impl<T: Resource> DetectChanges for ResMut<'_, T> { fn is_added(&self) -> bool { false } fn is_changed(&self) -> bool { false } fn last_changed(&self) -> ecs::component::Tick { ecs::component::Tick(0) } }

pub struct Local<'s, T: FromWorld + Send + 'static>(&'s mut T);
impl<'s, T: FromWorld + Send + 'static> Local<'s, T> { #[doc(hidden)] pub fn verif_new(v: &'s mut T) -> Self { Local(v) } }
impl<'s, T: FromWorld + Send + 'static> Deref for Local<'s, T> { type Target = T; fn deref(&self) -> &T { self.0 } }
impl<'s, T: FromWorld + Send + 'static> DerefMut for Local<'s, T> { fn deref_mut(&mut self) -> &mut T { self.0 } }
pub struct SyncCell<T>(T);
unsafe impl<T> Sync for SyncCell<T> {}
unsafe impl<T: FromWorld + Send + 'static> SystemParam for Local<'_, T> {
    type State = SyncCell<T>;
    type Item<'w, 's> = Local<'s, T>;
    fn init_state(world: &mut World) -> SyncCell<T> { SyncCell(T::from_world(world)) }
    unsafe fn get_param<'w, 's>(state: &'s mut SyncCell<T>, _: ecs::world::unsafe_world_cell::UnsafeWorldCell<'w>) -> Local<'s, T> { Local(&mut state.0) }
}

unsafe impl SystemParam for Commands<'_, '_> {
    type State = SyncCell<Box<CommandQueue>>;
    type Item<'w, 's> = Commands<'w, 's>;
    fn init_state(_: &mut World) -> Self::State { SyncCell(Box::new(CommandQueue::default())) }
    fn apply(state: &mut Self::State, world: &mut World) { state.0.apply(world); }
    unsafe fn get_param<'w, 's>(state: &'s mut Self::State, world: ecs::world::unsafe_world_cell::UnsafeWorldCell<'w>) -> Commands<'w, 's> {
        Commands { queue: &mut **(&mut state.0) as *mut CommandQueue, entities: &world.world().entities as *const Entities, _p: PhantomData }
    }
}
unsafe impl Send for CommandQueue {}

// queries: only `get`/`get_mut`/`single`/`single_mut`/`contains` are provided.
pub trait QueryData { type Item<'w>; type Comp: Component; type ReadOnly: ReadOnlyQueryData<Comp = Self::Comp>; unsafe fn fetch<'w>(world: *mut World, e: Entity) -> Option<Self::Item<'w>>;
    /// Verification aid (`Query::verif_single`): the item for a component that lives outside any World.
    unsafe fn from_ptr<'w>(p: *mut Self::Comp, e: Entity) -> Self::Item<'w>; }
impl<C: Component> QueryData for &C { type Item<'w> = &'w C; type Comp = C; type ReadOnly = Self; unsafe fn fetch<'w>(w: *mut World, e: Entity) -> Option<&'w C> { (*w).get::<C>(e) } unsafe fn from_ptr<'w>(p: *mut C, _: Entity) -> &'w C { &*p } }
impl<C: Component> QueryData for &mut C { type Item<'w> = Mut<'w, C>; type Comp = C; type ReadOnly = &'static C; unsafe fn fetch<'w>(w: *mut World, e: Entity) -> Option<Mut<'w, C>> { (*w).get_mut::<C>(e) } unsafe fn from_ptr<'w>(p: *mut C, _: Entity) -> Mut<'w, C> { Mut { value: &mut *p } } }
impl<C: Component> QueryData for (Entity, &C) { type Item<'w> = (Entity, &'w C); type Comp = C; type ReadOnly = Self; unsafe fn fetch<'w>(w: *mut World, e: Entity) -> Option<(Entity, &'w C)> { (*w).get::<C>(e).map(|c| (e, c)) } unsafe fn from_ptr<'w>(p: *mut C, e: Entity) -> (Entity, &'w C) { (e, &*p) } }
impl<C: Component> QueryData for (Entity, &mut C) { type Item<'w> = (Entity, Mut<'w, C>); type Comp = C; type ReadOnly = (Entity, &'static C); unsafe fn fetch<'w>(w: *mut World, e: Entity) -> Option<(Entity, Mut<'w, C>)> { (*w).get_mut::<C>(e).map(|c| (e, c)) } unsafe fn from_ptr<'w>(p: *mut C, e: Entity) -> (Entity, Mut<'w, C>) { (e, Mut { value: &mut *p }) } }
pub trait ReadOnlyQueryData: QueryData {}
pub struct NoComp; impl Component for NoComp {}
impl<C: Component> ReadOnlyQueryData for &C {}
impl<C: Component> ReadOnlyQueryData for (Entity, &C) {}

pub struct With<T>(PhantomData<T>);
pub trait QueryFilter { fn matches(w: &World, e: Entity) -> bool; }
impl QueryFilter for () { fn matches(_: &World, _: Entity) -> bool { true } }
impl<T: Component> QueryFilter for With<T> { fn matches(w: &World, e: Entity) -> bool { w.get::<T>(e).is_some() } }
impl<'w, 's, F: QueryFilter> Query<'w, 's, (), F> {
    pub fn iter(&self) -> impl Iterator<Item = ()> + '_ {
        let w = unsafe { &*self.world };
        w.entities.slots().iter().enumerate().filter(move |(i, s)| s.alive && F::matches(w, Entity { index: *i as u32, generation: s.generation })).map(|_| ())
    }
}
impl QueryData for () { type Item<'w> = (); type Comp = NoComp; type ReadOnly = (); unsafe fn fetch<'w>(_: *mut World, _: Entity) -> Option<Self::Item<'w>> { Some(()) } unsafe fn from_ptr<'w>(_: *mut NoComp, _: Entity) -> Self::Item<'w> {} }
impl ReadOnlyQueryData for () {}
pub struct Query<'w, 's, D: QueryData, F = ()> { world: *mut World, single: Option<(Entity, *mut D::Comp, bool)>, _p: PhantomData<(&'w (), &'s (), D, F)> }
unsafe impl<D: QueryData, F> Send for Query<'_, '_, D, F> {}
unsafe impl<D: QueryData, F> Sync for Query<'_, '_, D, F> {}
impl<'w, 's, D: QueryData, F> Query<'w, 's, D, F> {
    #[doc(hidden)] pub fn verif_new(world: &'w mut World) -> Self { Query { world: world as *mut World, single: None, _p: PhantomData } }
    /// Verification aid: a query over a 'world' in which exactly `e` carries the component `*c` (or nobody, for `None`);
    /// avoids the type-erased component storage (CBMC cost). Only `get`/`get_mut`/`contains` are meaningful on it.
    #[doc(hidden)] pub fn verif_single(e: Entity, c: Option<&'w mut D::Comp>) -> Self {
        Query { world: core::ptr::null_mut(), single: Some((e, match c { Some(c) => c as *mut D::Comp, None => core::ptr::null_mut() }, true)), _p: PhantomData }
    }
    /// Verification aid: a filter query (`Query<(), With<T>>`) over a 'world' in which `e` matches the filter iff `matches`.
    #[doc(hidden)] pub fn verif_single_filter(e: Entity, matches: bool) -> Self {
        Query { world: core::ptr::null_mut(), single: Some((e, core::ptr::NonNull::<D::Comp>::dangling().as_ptr(), matches)), _p: PhantomData }
    }
    pub fn get(&self, e: Entity) -> Result<<D::ReadOnly as QueryData>::Item<'_>, ecs::query::QueryEntityError<'static>> {
        if let Some((se, p, f)) = self.single {
            return if se == e && !p.is_null() && f { Ok(unsafe { <D::ReadOnly as QueryData>::from_ptr(p, e) }) } else { Err(ecs::query::QueryEntityError::NoSuchEntity(e, PhantomData)) };
        }
        unsafe { <D::ReadOnly as QueryData>::fetch(self.world, e) }.ok_or(ecs::query::QueryEntityError::NoSuchEntity(e, PhantomData))
    }
    pub fn get_mut(&mut self, e: Entity) -> Result<D::Item<'_>, ecs::query::QueryEntityError<'static>> {
        if let Some((se, p, f)) = self.single {
            return if se == e && !p.is_null() && f { Ok(unsafe { D::from_ptr(p, e) }) } else { Err(ecs::query::QueryEntityError::NoSuchEntity(e, PhantomData)) };
        }
        unsafe { D::fetch(self.world, e) }.ok_or(ecs::query::QueryEntityError::NoSuchEntity(e, PhantomData))
    }
    pub fn contains(&self, e: Entity) -> bool where F: QueryFilter {
        if let Some((se, p, f)) = self.single { return se == e && !p.is_null() && f; }
        let w = unsafe { &*self.world };
        w.entities.contains(e) && unsafe { <D::ReadOnly as QueryData>::fetch(self.world, e) }.is_some() && F::matches(w, e)
    }
    fn only(&self) -> Entity {
        let w = unsafe { &*self.world };
        let mut found = None;
        for (i, s) in w.entities.slots().iter().enumerate() {
            let e = Entity { index: i as u32, generation: s.generation };
            if s.alive && w.get::<D::Comp>(e).is_some() { assert!(found.is_none(), "single(): multiple entities"); found = Some(e); }
        }
        found.expect("single(): no entities")
    }
    pub fn single(&self) -> <D::ReadOnly as QueryData>::Item<'_> { let e = self.only(); unsafe { <D::ReadOnly as QueryData>::fetch(self.world, e) }.unwrap() }
    pub fn single_mut(&mut self) -> D::Item<'_> { let e = self.only(); unsafe { D::fetch(self.world, e) }.unwrap() }
}
unsafe impl<D: QueryData + 'static, F: 'static> SystemParam for Query<'_, '_, D, F> {
    type State = ();
    type Item<'w, 's> = Query<'w, 's, D, F>;
    fn init_state(_: &mut World) {}
    unsafe fn get_param<'w, 's>(_: &'s mut (), world: ecs::world::unsafe_world_cell::UnsafeWorldCell<'w>) -> Query<'w, 's, D, F> { Query { world: world.world, single: None, _p: PhantomData } }
}

/// `RemovedComponents<T>`: event-reader semantics over the world's removal log (one cursor per system instance).
pub struct RemovedComponents<'w, 's, T: Component> { log: &'w Vec<(TypeId, Entity)>, cursor: &'s mut usize, _p: PhantomData<T> }
impl<'w, 's, T: Component> RemovedComponents<'w, 's, T> {
    pub fn read(&mut self) -> impl Iterator<Item = Entity> + '_ {
        let start = (*self.cursor).min(self.log.len());
        *self.cursor = self.log.len();
        self.log[start..].iter().filter(|(t, _)| *t == TypeId::of::<T>()).map(|(_, e)| *e)
    }
}
unsafe impl<T: Component> SystemParam for RemovedComponents<'_, '_, T> {
    type State = usize;
    type Item<'w, 's> = RemovedComponents<'w, 's, T>;
    fn init_state(_: &mut World) -> usize { 0 }
    unsafe fn get_param<'w, 's>(state: &'s mut usize, world: ecs::world::unsafe_world_cell::UnsafeWorldCell<'w>) -> RemovedComponents<'w, 's, T> {
        RemovedComponents { log: &world.world().removed, cursor: state, _p: PhantomData }
    }
}

//---------------------------------------------------------------------------------------------------------------
// App (only what ReactPlugin / extensions use)
//---------------------------------------------------------------------------------------------------------------

pub trait ScheduleLabel: 'static { const ORDER: usize; }
#[derive(Debug, Default, Copy, Clone, PartialEq, Eq, Hash)] pub struct Startup;
#[derive(Debug, Default, Copy, Clone, PartialEq, Eq, Hash)] pub struct Update;
#[derive(Debug, Default, Copy, Clone, PartialEq, Eq, Hash)] pub struct Last;
impl ScheduleLabel for Startup { const ORDER: usize = 0; }
impl ScheduleLabel for Update { const ORDER: usize = 1; }
impl ScheduleLabel for Last { const ORDER: usize = 2; }
pub struct DefaultPlugins;
impl Plugin for DefaultPlugins { fn build(&self, _: &mut App) {} }
struct Scheduled { sched: usize, in_set: Option<TypeId>, after: Option<TypeId>, sys: BoxedSystem }
pub struct App { world: World, systems: Vec<Scheduled>, started: bool }
pub trait Plugin: Send + Sync + 'static { fn build(&self, app: &mut App); }
pub struct SystemConfig { sys: BoxedSystem, in_set: Option<TypeId>, after: Option<TypeId> }
pub trait IntoSystemConfigs<M>: Sized {
    fn into_config(self) -> SystemConfig;
    fn in_set<S: SystemSet>(self, _: S) -> SystemConfig { let mut c = self.into_config(); c.in_set = Some(TypeId::of::<S>()); c }
    fn after<S: SystemSet>(self, _: S) -> SystemConfig { let mut c = self.into_config(); c.after = Some(TypeId::of::<S>()); c }
}
impl IntoSystemConfigs<()> for SystemConfig { fn into_config(self) -> SystemConfig { self } }
impl<M, F: IntoSystem<(), (), M>> IntoSystemConfigs<(M,)> for F {
    fn into_config(self) -> SystemConfig { SystemConfig { sys: Box::new(IntoSystem::into_system(self)), in_set: None, after: None } }
}
impl Default for App { fn default() -> Self { App::new() } }
impl App {
    pub fn new() -> App { App { world: World::new(), systems: Vec::new(), started: false } }
    pub fn world(&self) -> &World { &self.world }
    pub fn world_mut(&mut self) -> &mut World { &mut self.world }
    pub fn init_resource<R: Resource + FromWorld>(&mut self) -> &mut Self { self.world.init_resource::<R>(); self }
    pub fn insert_resource<R: Resource>(&mut self, r: R) -> &mut Self { self.world.insert_resource(r); self }
    pub fn add_plugins<P: Plugin>(&mut self, p: P) -> &mut Self { p.build(self); self }
    pub fn add_systems<L: ScheduleLabel, M>(&mut self, _: L, s: impl IntoSystemConfigs<M>) -> &mut Self {
        let c = s.into_config();
        let mut sys = c.sys;
        sys.initialize(&mut self.world);
        self.systems.push(Scheduled { sched: L::ORDER, in_set: c.in_set, after: c.after, sys });
        self
    }
    /// One frame: Startup (first frame only), Update, Last; within a schedule systems run in insertion order
    /// subject to `after(set)` constraints; then trackers are cleared (Bevy: `World::clear_trackers`).
    pub fn update(&mut self) {
        for sched in 0..3usize {
            if sched == 0 && self.started { continue; }
            let n = self.systems.len();
            let mut done = vec![false; n];
            for i in 0..n { if self.systems[i].sched != sched { done[i] = true; } }
            // Bevy semantics: systems without ordering constraints share one sync point (their deferred buffers are
            // applied after all of them ran); an ordering edge or an exclusive system forces a sync point before it.
            let mut pending: Vec<usize> = Vec::new();
            for _round in 0..n {
                for i in 0..n {
                    if done[i] { continue; }
                    let blocked = match self.systems[i].after { Some(set) => (0..n).any(|j| !done[j] && self.systems[j].in_set == Some(set)), None => false };
                    if blocked { continue; }
                    let world = unsafe { &mut *(&mut self.world as *mut World) };
                    if self.systems[i].sys.is_exclusive() || self.systems[i].after.is_some() {
                        for k in pending.drain(..) { self.systems[k].sys.apply_deferred(world); }
                        self.systems[i].sys.run((), world);
                    } else {
                        let cell = world.as_unsafe_world_cell();
                        unsafe { self.systems[i].sys.run_unsafe((), cell); }
                        pending.push(i);
                    }
                    done[i] = true;
                }
            }
            let world = unsafe { &mut *(&mut self.world as *mut World) };
            for k in pending.drain(..) { self.systems[k].sys.apply_deferred(world); }
        }
        self.started = true;
        self.world.clear_trackers();
    }
}

//---------------------------------------------------------------------------------------------------------------
// module layout expected by bevy_cobweb
//---------------------------------------------------------------------------------------------------------------

pub mod ecs {
    pub mod system {
        pub use crate::{BoxedSystem, Commands, EntityCommands, SystemParam};
        pub use bevy_shim_macros::SystemParam;
    }
    pub mod world {
        pub use crate::{Command, CommandQueue};
        pub mod unsafe_world_cell {
            use core::marker::PhantomData;
            #[derive(Copy, Clone)]
            pub struct UnsafeWorldCell<'w> { pub(crate) world: *mut crate::World, pub(crate) _p: PhantomData<&'w ()> }
            impl<'w> UnsafeWorldCell<'w> {
                pub(crate) unsafe fn world(self) -> &'w crate::World { &*self.world }
                #[allow(clippy::mut_from_ref)]
                pub(crate) unsafe fn world_mut(self) -> &'w mut crate::World { &mut *self.world }
                /// Verification aid: stub systems written in contract modules need the world behind the cell.
                #[doc(hidden)] #[allow(clippy::mut_from_ref)] pub unsafe fn verif_world_mut(self) -> &'w mut crate::World { &mut *self.world }
            }
        }
        pub mod error { pub type EntityFetchError = crate::EntityFetchErrorImpl; }
        pub mod reflect { #[derive(Debug)] pub struct GetComponentReflectError; }
    }
    pub mod component {
        #[derive(Debug, Copy, Clone)] pub struct Tick(pub u32);
        #[derive(Debug, Copy, Clone)] pub struct ComponentId(pub usize);
        #[derive(Debug)] pub struct RequiredComponentsError;
    }
    pub mod query {
        use core::marker::PhantomData;
        #[derive(Debug, Copy, Clone)] pub enum QueryEntityError<'w> { NoSuchEntity(crate::Entity, PhantomData<&'w ()>) }
        #[derive(Debug)] pub enum QuerySingleError { NoEntities, MultipleEntities }
    }
}

pub mod utils {
    pub use bevy_shim_macros::all_tuples;
    /// Fixed-capacity slot map: the assumed contract of a hash map (finite partial function), without hashing and
    /// without heap growth (CBMC-friendly). Capacity overflow panics (a harness bound, reported as such).
    pub const MAP_CAP: usize = 4;
    pub struct HashMap<K, V> { slots: [Option<(K, V)>; MAP_CAP] }
    impl<K: Eq, V> Default for HashMap<K, V> { fn default() -> Self { HashMap { slots: [None, None, None, None] } } }
    impl<K: Eq, V> HashMap<K, V> {
        pub fn new() -> Self { Self::default() }
        fn pos(&self, k: &K) -> Option<usize> {
            let mut i = 0;
            while i < MAP_CAP { if let Some((kk, _)) = &self.slots[i] { if kk == k { return Some(i); } } i += 1; }
            None
        }
        fn free(&self) -> usize {
            let mut i = 0;
            while i < MAP_CAP { if self.slots[i].is_none() { return i; } i += 1; }
            panic!("stub HashMap capacity exceeded");
        }
        pub fn len(&self) -> usize { let mut n = 0; let mut i = 0; while i < MAP_CAP { if self.slots[i].is_some() { n += 1; } i += 1; } n }
        pub fn is_empty(&self) -> bool { self.len() == 0 }
        pub fn get(&self, k: &K) -> Option<&V> { let p = self.pos(k)?; self.slots[p].as_ref().map(|(_, v)| v) }
        pub fn get_mut(&mut self, k: &K) -> Option<&mut V> { let p = self.pos(k)?; self.slots[p].as_mut().map(|(_, v)| v) }
        pub fn contains_key(&self, k: &K) -> bool { self.pos(k).is_some() }
        pub fn insert(&mut self, k: K, v: V) -> Option<V> {
            match self.pos(&k) {
                Some(p) => self.slots[p].replace((k, v)).map(|(_, v)| v),
                None => { let f = self.free(); self.slots[f] = Some((k, v)); None }
            }
        }
        pub fn remove(&mut self, k: &K) -> Option<V> { let p = self.pos(k)?; self.slots[p].take().map(|(_, v)| v) }
        pub fn entry(&mut self, k: K) -> Entry<'_, K, V> {
            match self.pos(&k) { Some(p) => Entry { slot: &mut self.slots[p], key: None }, None => { let f = self.free(); Entry { slot: &mut self.slots[f], key: Some(k) } } }
        }
    }
    pub struct Entry<'a, K, V> { slot: &'a mut Option<(K, V)>, key: Option<K> }
    impl<'a, K, V> Entry<'a, K, V> {
        pub fn or_default(self) -> &'a mut V where V: Default { self.or_insert_with(V::default) }
        pub fn or_insert_with(self, f: impl FnOnce() -> V) -> &'a mut V {
            if let Some(k) = self.key { *self.slot = Some((k, f())); }
            &mut self.slot.as_mut().unwrap().1
        }
    }
    pub struct HashSet<K> { items: Vec<K> }
    impl<K: Eq> Default for HashSet<K> { fn default() -> Self { HashSet { items: Vec::new() } } }
    impl<K: Eq> HashSet<K> {
        pub fn contains(&self, k: &K) -> bool { self.items.iter().any(|x| x == k) }
        pub fn insert(&mut self, k: K) -> bool { if self.contains(&k) { false } else { self.items.push(k); true } }
        pub fn len(&self) -> usize { self.items.len() }
    }
    /// Trivial deterministic hasher (FNV-1a); `SysName` only needs *a* hash function.
    pub struct AHasher(u64);
    impl Default for AHasher { fn default() -> Self { AHasher(0xcbf29ce484222325) } }
    impl core::hash::Hasher for AHasher {
        fn finish(&self) -> u64 { self.0 }
        fn write(&mut self, bytes: &[u8]) { for b in bytes { self.0 ^= *b as u64; self.0 = self.0.wrapping_mul(0x100000001b3); } }
    }
    impl<K: Eq + core::hash::Hash, V> HashMap<K, V> {}
}

#[macro_export] macro_rules! warn_once { ($($t:tt)*) => { () }; }

pub mod prelude {
    pub use crate::{App, Bundle, Commands, Component, DespawnRecursiveExt, DetectChanges, Entity, EntityCommands, EntityRef, EntityWorldMut,
        FromWorld, In, IntoSystem, IntoSystemConfigs, Last, Startup, Update, DefaultPlugins, Local, Mut, Plugin, Query, RemovedComponents, Res, ResMut, Resource, System,
        SystemInput, SystemSet, With, World};
    pub use crate::warn_once;
    pub use bevy_shim_macros::{Component, Deref, DerefMut, Resource, SystemSet};
}
