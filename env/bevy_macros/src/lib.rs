//! Derives and helper macros for the stub `bevy` crate (assumed-contract environment).
use proc_macro::TokenStream;
use quote::{format_ident, quote};
use syn::{parse_macro_input, parse_quote, DeriveInput, Data, Fields, Lifetime, visit_mut::VisitMut};

fn marker(input: TokenStream, tr: proc_macro2::TokenStream) -> TokenStream {
    let mut ast = parse_macro_input!(input as DeriveInput);
    ast.generics.make_where_clause().predicates.push(parse_quote! { Self: Send + Sync + 'static });
    let (ig, tg, wc) = ast.generics.split_for_impl();
    let name = &ast.ident;
    TokenStream::from(quote! { impl #ig #tr for #name #tg #wc {} })
}

#[proc_macro_derive(Resource)]
pub fn derive_resource(input: TokenStream) -> TokenStream { marker(input, quote!(::bevy::prelude::Resource)) }

#[proc_macro_derive(Component)]
pub fn derive_component(input: TokenStream) -> TokenStream { marker(input, quote!(::bevy::prelude::Component)) }

#[proc_macro_derive(SystemSet)]
pub fn derive_system_set(input: TokenStream) -> TokenStream {
    let ast = parse_macro_input!(input as DeriveInput);
    let (ig, tg, wc) = ast.generics.split_for_impl();
    let name = &ast.ident;
    TokenStream::from(quote! { impl #ig ::bevy::prelude::SystemSet for #name #tg #wc {} })
}

fn first_field(ast: &DeriveInput) -> (proc_macro2::TokenStream, syn::Type) {
    let Data::Struct(s) = &ast.data else { panic!("Deref derive: struct only") };
    match &s.fields {
        Fields::Unnamed(f) => (quote!(0), f.unnamed[0].ty.clone()),
        Fields::Named(f) => { let id = f.named[0].ident.clone().unwrap(); (quote!(#id), f.named[0].ty.clone()) }
        Fields::Unit => panic!("Deref derive: unit struct"),
    }
}

#[proc_macro_derive(Deref)]
pub fn derive_deref(input: TokenStream) -> TokenStream {
    let ast = parse_macro_input!(input as DeriveInput);
    let (ig, tg, wc) = ast.generics.split_for_impl();
    let name = &ast.ident;
    let (f, ty) = first_field(&ast);
    TokenStream::from(quote! { impl #ig ::core::ops::Deref for #name #tg #wc { type Target = #ty; fn deref(&self) -> &#ty { &self.#f } } })
}

#[proc_macro_derive(DerefMut)]
pub fn derive_deref_mut(input: TokenStream) -> TokenStream {
    let ast = parse_macro_input!(input as DeriveInput);
    let (ig, tg, wc) = ast.generics.split_for_impl();
    let name = &ast.ident;
    let (f, _) = first_field(&ast);
    TokenStream::from(quote! { impl #ig ::core::ops::DerefMut for #name #tg #wc { fn deref_mut(&mut self) -> &mut Self::Target { &mut self.#f } } })
}

struct Staticize;
impl VisitMut for Staticize {
    fn visit_lifetime_mut(&mut self, l: &mut Lifetime) {
        if l.ident == "w" || l.ident == "s" { *l = Lifetime::new("'static", l.span()); }
    }
}

/// `#[derive(SystemParam)]`: the struct's lifetimes must be named `'w` / `'s` (as in Bevy's own derive).
#[proc_macro_derive(SystemParam)]
pub fn derive_system_param(input: TokenStream) -> TokenStream {
    let ast = parse_macro_input!(input as DeriveInput);
    let name = &ast.ident;
    let Data::Struct(s) = &ast.data else { panic!("SystemParam derive: struct only") };
    let Fields::Named(fields) = &s.fields else { panic!("SystemParam derive: named fields only") };
    let fnames: Vec<_> = fields.named.iter().map(|f| f.ident.clone().unwrap()).collect();
    let ftys_static: Vec<syn::Type> = fields.named.iter().map(|f| { let mut t = f.ty.clone(); Staticize.visit_type_mut(&mut t); t }).collect();
    let idx: Vec<syn::Index> = (0..fnames.len()).map(syn::Index::from).collect();

    // generics: type params kept, lifetimes replaced
    let type_params: Vec<_> = ast.generics.type_params().cloned().collect();
    let tp_idents: Vec<_> = type_params.iter().map(|t| t.ident.clone()).collect();
    let lifetimes: Vec<_> = ast.generics.lifetimes().map(|l| l.lifetime.clone()).collect();
    let static_lts: Vec<_> = lifetimes.iter().enumerate().map(|(i, _)| { let l = Lifetime::new(&format!("'__i{}", i), proc_macro2::Span::call_site()); quote!(#l) }).collect();
    let item_lts: Vec<_> = lifetimes.iter().map(|l| { let id = &l.ident; if id == "w" { quote!('__w) } else { quote!('__s) } }).collect();
    let wc = &ast.generics.where_clause;
    let _ = format_ident!("x");

    TokenStream::from(quote! {
        const _: () = {
            #[doc(hidden)]
            pub struct __FetchState< #(#type_params),* > #wc {
                s: ( #( <#ftys_static as ::bevy::ecs::system::SystemParam>::State, )* ),
                _p: ::core::marker::PhantomData<fn() -> ( #(#tp_idents,)* )>,
            }
            unsafe impl< #(#static_lts,)* #(#type_params),* > ::bevy::ecs::system::SystemParam for #name < #(#static_lts,)* #(#tp_idents),* > #wc {
                type State = __FetchState< #(#tp_idents),* >;
                type Item<'__w, '__s> = #name < #(#item_lts,)* #(#tp_idents),* >;
                fn init_state(world: &mut ::bevy::prelude::World) -> Self::State {
                    __FetchState { s: ( #( <#ftys_static as ::bevy::ecs::system::SystemParam>::init_state(world), )* ), _p: ::core::marker::PhantomData }
                }
                fn apply(state: &mut Self::State, world: &mut ::bevy::prelude::World) {
                    #( <#ftys_static as ::bevy::ecs::system::SystemParam>::apply(&mut state.s.#idx, world); )*
                }
                unsafe fn get_param<'__w, '__s>(state: &'__s mut Self::State, world: ::bevy::ecs::world::unsafe_world_cell::UnsafeWorldCell<'__w>) -> Self::Item<'__w, '__s> {
                    #name { #( #fnames: <#ftys_static as ::bevy::ecs::system::SystemParam>::get_param(&mut state.s.#idx, world), )* }
                }
            }
        };
    })
}

/// `all_tuples!(m, start, end, Ident)` => m!(); m!(I0); m!(I0, I1); ...
#[proc_macro]
pub fn all_tuples(input: TokenStream) -> TokenStream {
    let s = input.to_string();
    let parts: Vec<&str> = s.split(',').map(|p| p.trim()).collect();
    let mac = format_ident!("{}", parts[0]);
    let start: usize = parts[1].parse().unwrap();
    let end: usize = parts[2].parse().unwrap();
    let id = parts[3];
    let mut out = proc_macro2::TokenStream::new();
    for n in start..=end {
        let ids: Vec<_> = (0..n).map(|i| format_ident!("{}{}", id, i)).collect();
        out.extend(quote! { #mac!( #(#ids),* ); });
    }
    TokenStream::from(out)
}
