//! Stub `crossbeam::channel`: unbounded MPMC FIFO, single-threaded semantics (assumed contract:
//! `send` appends, `try_recv` pops the oldest, clones share the queue).
//! Under Kani the queue is a fixed-capacity ring (no heap growth: CBMC cost); overflow panics = a harness bound.
pub mod channel {
    use std::cell::UnsafeCell;
    use std::sync::Arc;
    #[cfg(not(kani))]
    mod q {
        use std::collections::VecDeque;
        pub struct Fifo<T>(VecDeque<T>);
        impl<T> Fifo<T> {
            pub fn new() -> Self { Fifo(VecDeque::new()) }
            pub fn push(&mut self, t: T) { self.0.push_back(t) }
            pub fn pop(&mut self) -> Option<T> { self.0.pop_front() }
        }
    }
    #[cfg(kani)]
    mod q {
        pub const CAP: usize = 4;
        pub struct Fifo<T> { buf: [Option<T>; CAP], head: usize, len: usize }
        impl<T> Fifo<T> {
            pub fn new() -> Self { Fifo { buf: [None, None, None, None], head: 0, len: 0 } }
            pub fn push(&mut self, t: T) {
                if self.len >= CAP { panic!("stub channel capacity exceeded"); }
                let at = (self.head + self.len) % CAP;
                self.buf[at] = Some(t);
                self.len += 1;
            }
            pub fn pop(&mut self) -> Option<T> {
                if self.len == 0 { return None; }
                let t = self.buf[self.head].take();
                self.head = (self.head + 1) % CAP;
                self.len -= 1;
                t
            }
        }
    }
    use q::Fifo;
    struct Q<T>(UnsafeCell<Fifo<T>>);
    unsafe impl<T: Send> Send for Q<T> {}
    unsafe impl<T: Send> Sync for Q<T> {}
    pub struct Sender<T>(Arc<Q<T>>);
    pub struct Receiver<T>(Arc<Q<T>>);
    #[derive(Debug)] pub struct SendError<T>(pub T);
    #[derive(Debug)] pub struct TryRecvError;
    impl<T> Clone for Sender<T> { fn clone(&self) -> Self { Sender(self.0.clone()) } }
    impl<T> Clone for Receiver<T> { fn clone(&self) -> Self { Receiver(self.0.clone()) } }
    impl<T> Sender<T> { pub fn send(&self, t: T) -> Result<(), SendError<T>> { unsafe { (*self.0 .0.get()).push(t); } Ok(()) } }
    impl<T> Receiver<T> { pub fn try_recv(&self) -> Result<T, TryRecvError> { unsafe { (*self.0 .0.get()).pop() }.ok_or(TryRecvError) } }
    pub fn unbounded<T>() -> (Sender<T>, Receiver<T>) { let q = Arc::new(Q(UnsafeCell::new(Fifo::new()))); (Sender(q.clone()), Receiver(q)) }
}
