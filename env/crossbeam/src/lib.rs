//! Stub `crossbeam::channel`: unbounded MPMC FIFO, single-threaded semantics (assumed contract:
//! `send` appends, `try_recv` pops the oldest, clones share the queue).
pub mod channel {
    use std::cell::UnsafeCell;
    use std::collections::VecDeque;
    use std::sync::Arc;
    struct Q<T>(UnsafeCell<VecDeque<T>>);
    unsafe impl<T: Send> Send for Q<T> {}
    unsafe impl<T: Send> Sync for Q<T> {}
    pub struct Sender<T>(Arc<Q<T>>);
    pub struct Receiver<T>(Arc<Q<T>>);
    #[derive(Debug)] pub struct SendError<T>(pub T);
    #[derive(Debug)] pub struct TryRecvError;
    impl<T> Clone for Sender<T> { fn clone(&self) -> Self { Sender(self.0.clone()) } }
    impl<T> Clone for Receiver<T> { fn clone(&self) -> Self { Receiver(self.0.clone()) } }
    impl<T> Sender<T> { pub fn send(&self, t: T) -> Result<(), SendError<T>> { unsafe { (*self.0 .0.get()).push_back(t); } Ok(()) } }
    impl<T> Receiver<T> { pub fn try_recv(&self) -> Result<T, TryRecvError> { unsafe { (*self.0 .0.get()).pop_front() }.ok_or(TryRecvError) } }
    pub fn unbounded<T>() -> (Sender<T>, Receiver<T>) { let q = Arc::new(Q(UnsafeCell::new(VecDeque::new()))); (Sender(q.clone()), Receiver(q)) }
}
