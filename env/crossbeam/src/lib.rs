//! Stub `crossbeam::channel`: unbounded MPMC FIFO, single-threaded semantics (assumed contract:
//! `send` appends, `try_recv` pops the oldest, clones share the queue).
//! Under Kani the queue is a fixed-capacity ring (no heap growth: CBMC cost); overflow panics = a harness bound.
pub mod channel {
    use std::cell::UnsafeCell;
    use std::sync::Arc;
    #[cfg(not(kani))]
    mod q {
        use std::collections::VecDeque;
        pub struct Fifo<T>(VecDeque<T>);
        impl<T> Fifo<T> {
            pub fn new() -> Self { Fifo(VecDeque::new()) }
            pub fn push(&mut self, t: T) { self.0.push_back(t) }
            pub fn pop(&mut self) -> Option<T> { self.0.pop_front() }
            pub fn len(&self) -> usize { self.0.len() }
        }
    }
    #[cfg(kani)]
    mod q {
        pub const CAP: usize = 4;
        pub struct Fifo<T> { buf: [Option<T>; CAP], head: usize, len: usize }
        impl<T> Fifo<T> {
            pub fn new() -> Self { Fifo { buf: [None, None, None, None], head: 0, len: 0 } }
            pub fn push(&mut self, t: T) {
                if self.len >= CAP { panic!("stub channel capacity exceeded"); }
                let at = (self.head + self.len) % CAP;
                self.buf[at] = Some(t);
                self.len += 1;
            }
            pub fn len(&self) -> usize { self.len }
            pub fn pop(&mut self) -> Option<T> {
                if self.len == 0 { return None; }
                let t = self.buf[self.head].take();
                self.head = (self.head + 1) % CAP;
                self.len -= 1;
                t
            }
        }
    }
    use q::Fifo;
    struct Q<T>(UnsafeCell<Fifo<T>>, Option<usize>);   // queue, capacity (None = unbounded)
    unsafe impl<T: Send> Send for Q<T> {}
    unsafe impl<T: Send> Sync for Q<T> {}
    pub struct Sender<T>(Arc<Q<T>>);
    pub struct Receiver<T>(Arc<Q<T>>);
    #[derive(Debug)] pub struct SendError<T>(pub T);
    #[derive(Debug)] pub enum TrySendError<T> { Full(T), Disconnected(T) }
    #[derive(Debug)] pub struct TryRecvError;
    impl<T> Clone for Sender<T> { fn clone(&self) -> Self { Sender(self.0.clone()) } }
    impl<T> Clone for Receiver<T> { fn clone(&self) -> Self { Receiver(self.0.clone()) } }
    impl<T> Sender<T> {
        /// single-threaded stand-in: a `send` on a full bounded channel would block forever; that is reported as a panic
        pub fn send(&self, t: T) -> Result<(), SendError<T>> {
            if let Some(cap) = self.0 .1 { if unsafe { (*self.0 .0.get()).len() } >= cap { panic!("stub channel: send on a full bounded channel would block"); } }
            unsafe { (*self.0 .0.get()).push(t); } Ok(())
        }
        /// Verification aid: the capacity this channel was created with (None = unbounded).
        #[doc(hidden)] pub fn verif_capacity(&self) -> Option<usize> { self.0 .1 }
        pub fn try_send(&self, t: T) -> Result<(), TrySendError<T>> {
            if let Some(cap) = self.0 .1 { if unsafe { (*self.0 .0.get()).len() } >= cap { return Err(TrySendError::Full(t)); } }
            unsafe { (*self.0 .0.get()).push(t); } Ok(())
        }
    }
    impl<T> Receiver<T> { pub fn try_recv(&self) -> Result<T, TryRecvError> { unsafe { (*self.0 .0.get()).pop() }.ok_or(TryRecvError) } }
    pub fn unbounded<T>() -> (Sender<T>, Receiver<T>) { let q = Arc::new(Q(UnsafeCell::new(Fifo::new()), None)); (Sender(q.clone()), Receiver(q)) }
    pub fn bounded<T>(cap: usize) -> (Sender<T>, Receiver<T>) { let q = Arc::new(Q(UnsafeCell::new(Fifo::new()), Some(cap))); (Sender(q.clone()), Receiver(q)) }
}
