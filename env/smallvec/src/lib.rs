//! Stub `smallvec`: the assumed contract of the part of SmallVec that bevy_cobweb uses - a growable sequence.
//! (The inline/heap representation of the real crate is irrelevant to the properties and very expensive for CBMC.)
//! `drain_filter(f)`: removes exactly the elements for which `f` returns true, keeping the others in order; the real
//! crate does this lazily and completes it when the returned iterator is dropped - dropping it at once (as bevy_cobweb
//! does) is therefore equivalent to the eager removal done here.
use core::ops::{Deref, DerefMut};

pub trait Array { type Item; const CAP: usize; }
impl<T, const N: usize> Array for [T; N] { type Item = T; const CAP: usize = N; }

pub struct SmallVec<A: Array> { v: Vec<A::Item> }
impl<A: Array> Default for SmallVec<A> { fn default() -> Self { SmallVec { v: Vec::with_capacity(A::CAP) } } }
impl<A: Array> SmallVec<A> {
    pub fn new() -> Self { Self::default() }
    pub fn with_capacity(n: usize) -> Self { SmallVec { v: Vec::with_capacity(n) } }
    pub fn as_slice(&self) -> &[A::Item] { &self.v }
    pub fn iter(&self) -> core::slice::Iter<'_, A::Item> { self.v.iter() }
    pub fn push(&mut self, x: A::Item) { self.v.push(x) }
    pub fn len(&self) -> usize { self.v.len() }
    pub fn is_empty(&self) -> bool { self.v.is_empty() }
    // the rest of the Vec-like surface of SmallVec (not used by bevy_cobweb today; present so that a refactoring of the
    // crate that switches to one of them still compiles against the assumed environment)
    pub fn retain<F: FnMut(&mut A::Item) -> bool>(&mut self, mut f: F) { let _ = self.drain_filter(|x| !f(x)); }
    pub fn retain_mut<F: FnMut(&mut A::Item) -> bool>(&mut self, f: F) { self.retain(f) }
    pub fn remove(&mut self, i: usize) -> A::Item { self.v.remove(i) }
    pub fn swap_remove(&mut self, i: usize) -> A::Item { self.v.swap_remove(i) }
    pub fn insert(&mut self, i: usize, x: A::Item) { self.v.insert(i, x) }
    pub fn pop(&mut self) -> Option<A::Item> { self.v.pop() }
    pub fn clear(&mut self) { self.v.clear() }
    pub fn truncate(&mut self, n: usize) { self.v.truncate(n) }
    pub fn iter_mut(&mut self) -> core::slice::IterMut<'_, A::Item> { self.v.iter_mut() }
    pub fn drain<R: core::ops::RangeBounds<usize>>(&mut self, r: R) -> std::vec::Drain<'_, A::Item> { self.v.drain(r) }
    pub fn extend<I: IntoIterator<Item = A::Item>>(&mut self, it: I) { self.v.extend(it) }
    pub fn into_vec(self) -> Vec<A::Item> { self.v }
    pub fn drain_filter<F: FnMut(&mut A::Item) -> bool>(&mut self, mut f: F) -> DrainFilter<A::Item> {
        // in-place, order-preserving compaction without allocation (CBMC cost): kept elements move left, the removed
        // ones collect at the tail and are dropped by `truncate`.
        let n = self.v.len();
        let mut w = 0;
        let mut r = 0;
        while r < n {
            if !f(&mut self.v[r]) { if w != r { self.v.swap(w, r); } w += 1; }
            r += 1;
        }
        self.v.truncate(w);
        DrainFilter { _p: core::marker::PhantomData }
    }
}
impl<A: Array> Deref for SmallVec<A> { type Target = [A::Item]; fn deref(&self) -> &[A::Item] { &self.v } }
impl<A: Array> DerefMut for SmallVec<A> { fn deref_mut(&mut self) -> &mut [A::Item] { &mut self.v } }
/// The removed elements have already been dropped (bevy_cobweb never looks at them); iterating yields nothing.
pub struct DrainFilter<T> { _p: core::marker::PhantomData<T> }
impl<T> Iterator for DrainFilter<T> { type Item = T; fn next(&mut self) -> Option<T> { None } }
impl<A: Array> IntoIterator for SmallVec<A> { type Item = A::Item; type IntoIter = std::vec::IntoIter<A::Item>; fn into_iter(self) -> Self::IntoIter { self.v.into_iter() } }
impl<'a, A: Array> IntoIterator for &'a SmallVec<A> { type Item = &'a A::Item; type IntoIter = core::slice::Iter<'a, A::Item>; fn into_iter(self) -> Self::IntoIter { self.v.iter() } }
