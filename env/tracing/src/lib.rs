//! Stub `tracing`: every event macro is a no-op that does not evaluate its arguments.
#[macro_export] macro_rules! error { ($($t:tt)*) => { () }; }
#[macro_export] macro_rules! warn { ($($t:tt)*) => { () }; }
#[macro_export] macro_rules! debug { ($($t:tt)*) => { () }; }
#[macro_export] macro_rules! info { ($($t:tt)*) => { () }; }
#[macro_export] macro_rules! trace { ($($t:tt)*) => { () }; }
