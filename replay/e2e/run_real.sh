#!/bin/sh
# Triage tool: run an end-to-end scenario against the REAL crate (/repo working tree) with REAL Bevy 0.15.
# Reuses /repo/target for the compiled Bevy; removes its own artefacts afterwards.
set -e
D=$(mktemp -d /root/verif_e2e.XXXXXX)
trap 'rm -rf "$D"; rm -rf /repo/target/debug/verif_e2e* /repo/target/debug/deps/verif_e2e* /repo/target/debug/incremental/verif_e2e*' EXIT
mkdir -p "$D/src" "$D/.cargo"
cp "$(dirname "$0")/src/main.rs" "$D/src/main.rs"
cp "$(dirname "$0")/Cargo.real.toml" "$D/Cargo.toml"
cp /repo/Cargo.lock "$D/Cargo.lock" 2>/dev/null || true
printf '[net]\noffline = true\n[build]\ntarget-dir = "/repo/target"\n' > "$D/.cargo/config.toml"
cd "$D"
cargo build --offline -q 2>&1 | tail -5
rc=0
for s in "$@"; do /repo/target/debug/verif_e2e "$s" || rc=1; done
exit $rc
