//! End-to-end replay drivers (public API only). Built either against the REAL crate with REAL Bevy 0.15
//! (`run_real.sh`, triage: genuine defect vs false alarm) or against the staged crate + assumed environment
//! (`./check` uses that for the known-finding scenario). Not part of the deciding step of any proof obligation.
use bevy::prelude::*;
use bevy::ecs::world::Command;
use bevy_cobweb::prelude::*;

#[derive(ReactComponent)]
struct A(u32);

#[derive(Resource, Default)]
struct Log(Vec<String>);
#[derive(Resource, Default)]
struct Order(Vec<u32>);
#[derive(Resource)]
struct Ents(Entity, Entity, Entity);
#[derive(Resource)]
struct Me(SystemCommand);

fn app() -> App { let mut app = App::new(); app.add_plugins(ReactPlugin); app }

/// F1 (C12/C03): a system sends itself system events 1..=4 while running; they must be processed in order.
fn c12_self_events() -> bool {
    let mut app = app();
    let world = app.world_mut();
    world.init_resource::<Order>();
    let s = world.spawn_system_command(|mut ev: SystemEvent<u32>, mut c: Commands, mut order: ResMut<Order>, me: Res<Me>| {
        match ev.take() {
            Ok(d) => order.0.push(d),
            Err(_) => { for i in 1..=4u32 { c.send_system_event(me.0, i); } }
        }
    });
    world.insert_resource(Me(s));
    s.apply(world);
    let got = world.resource::<Order>().0.clone();
    println!("c12_self_events: processed {:?} (expected [1, 2, 3, 4])", got);
    got == vec![1, 2, 3, 4]
}

/// F2 (C14): ReactCommands::insert on an entity despawned before the command applies must not fire insertion reactors.
fn c14_dead_insert() -> bool {
    let mut app = app();
    let world = app.world_mut();
    world.init_resource::<Log>();
    world.react(|rc| rc.on_persistent(insertion::<A>(), |ev: InsertionEvent<A>, mut log: ResMut<Log>| {
        log.0.push(format!("insertion reaction for {:?}", ev.get().ok()));
    }));
    world.syscall((), |mut c: Commands| {
        let e = c.spawn_empty().id();
        c.entity(e).despawn();
        c.react().insert(e, A(1));
    });
    let log = world.resource::<Log>().0.clone();
    println!("c14_dead_insert: reactions {:?} (expected none)", log);
    log.is_empty()
}

/// F3 (C03): nested replay mixes metadata across kinds sharing EntityReactionAccessTracker.
fn c03_nested_mix() -> bool {
    let mut app = app();
    let world = app.world_mut();
    world.init_resource::<Log>();
    let e1 = world.spawn_empty().id();
    let e2 = world.spawn_empty().id();
    let e3 = world.spawn_empty().id();
    world.insert_resource(Ents(e1, e2, e3));
    world.react(|rc| { rc.insert(e1, A(0)); rc.insert(e2, A(0)); });
    let s = world.react(|rc| rc.on_persistent(
        (entity_mutation::<A>(e1), entity_mutation::<A>(e2), entity_event::<u32>(e3)),
        |m: MutationEvent<A>, ev: EntityEvent<u32>, mut c: Commands, mut a: ReactiveMut<A>, ents: Res<Ents>, mut log: ResMut<Log>, mut n: Local<u32>| {
            *n += 1;
            let mu = m.get().ok();
            let en = ev.try_read().ok().map(|(e, d)| (e, *d));
            let tag = match (mu, en) {
                (Some(_), Some(_)) => "BOTH",
                (None, None) => if *n == 1 { "manual" } else { "NOTHING" },
                _ => "one",
            };
            log.0.push(format!("{tag}: mutation={:?} entity_event={:?}", mu, en));
            if *n == 1 {
                let _ = a.get_mut(&mut c, ents.0);
                let _ = a.get_mut(&mut c, ents.1);
            } else if mu == Some(ents.0) && en.is_none() {
                c.react().entity_event(ents.2, 7u32);
            }
        }));
    s.apply(world);
    let log = world.resource::<Log>().0.clone();
    for l in &log { println!("c03_nested_mix:   {l}"); }
    let bad = log.iter().any(|l| l.starts_with("BOTH") || l.starts_with("NOTHING"));
    println!("c03_nested_mix: {}", if bad { "a run saw two events at once / a caused run saw nothing" } else { "every run saw exactly its own event" });
    !bad
}

fn main() {
    let which = std::env::args().nth(1).unwrap_or_default();
    let ok = match which.as_str() {
        "c12_self_events" => c12_self_events(),
        "c14_dead_insert" => c14_dead_insert(),
        "c03_nested_mix" => c03_nested_mix(),
        _ => { eprintln!("usage: verif_e2e <c12_self_events|c14_dead_insert|c03_nested_mix>"); std::process::exit(2) }
    };
    println!("E2E {} {}", which, if ok { "HELD" } else { "VIOLATED" });
    std::process::exit(if ok { 0 } else { 1 });
}
