#!/bin/sh
# Run once after a fresh restore, offline: builds nothing persistent except the cargo/kani dependency cache under
# /verif/.work/target, and checks that the assumed environment (stub Bevy) still agrees with the repo's own tests.
cd "$(dirname "$0")" || exit 1
export CARGO_NET_OFFLINE=true
python3 tools/conformance.py || exit 2
# warm the Kani build of the staged crate (dependencies + stub), so the first check does not pay for it
python3 tools/dev.py 'K\.tracker\.event\.start\.L0$' 300 --tag setup >/dev/null 2>&1
rm -rf .work/setup
exit 0
