#!/usr/bin/env python3
"""Conformance of the assumed environment (DESIGN 3.3): the repository's own test suite, compiled against the stub
bevy/crossbeam/tracing in /verif/env, must pass natively.  Exit 0 = all tests of /repo/tests passed against the stub;
exit 2 = environment-mismatch (never a property result).  Writes .work/conformance.json."""
import json, os, re, subprocess, sys, time
sys.path.insert(0, os.path.dirname(os.path.abspath(__file__)))
import stage as stage_mod
VERIF = os.path.dirname(os.path.dirname(os.path.abspath(__file__)))

def run(tag='conformance'):
    t0 = time.time()
    sdir, info = stage_mod.stage(tag)
    env = dict(os.environ, CARGO_NET_OFFLINE='true')
    env.pop('RUSTUP_TOOLCHAIN', None)
    p = subprocess.run(['cargo', 'test', '--offline', '--', '--test-threads', '8'], cwd=sdir, env=env,
                       stdout=subprocess.PIPE, stderr=subprocess.STDOUT, text=True)
    passed = failed = 0
    for m in re.finditer(r'test result: \w+\. (\d+) passed; (\d+) failed', p.stdout):
        passed += int(m.group(1)); failed += int(m.group(2))
    ok = p.returncode == 0 and failed == 0 and passed > 0
    out = {'ok': ok, 'passed': passed, 'failed': failed, 'wall_s': round(time.time() - t0, 1),
           'failed_tests': re.findall(r'^test (\S+) \.\.\. FAILED', p.stdout, re.M)[:20],
           'tail': '' if ok else p.stdout[-3000:]}
    os.makedirs(os.path.join(VERIF, '.work'), exist_ok=True)
    json.dump(out, open(os.path.join(VERIF, '.work', 'conformance.json'), 'w'), indent=1)
    import shutil
    shutil.rmtree(os.path.dirname(sdir), ignore_errors=True)
    return out

if __name__ == '__main__':
    o = run()
    print('conformance of /verif/env stub against /repo/tests: %d passed, %d failed (%.1fs)' % (o['passed'], o['failed'], o['wall_s']))
    if not o['ok']:
        print('UNDECIDED environment-mismatch'); print(o['tail']); sys.exit(2)
