#!/usr/bin/env python3
"""Development aid: stage the current /repo and run selected Kani harnesses (by id regex), print status + times.
   usage: tools/dev.py <id-regex> [timeout_s] [--keep]"""
import os, re, sys, time, json
sys.path.insert(0, os.path.dirname(os.path.abspath(__file__)))
import stage as stage_mod, kani_run

rx = re.compile(sys.argv[1])
timeout = int(sys.argv[2]) if len(sys.argv) > 2 and sys.argv[2].isdigit() else 300
ann = kani_run.parse_annotations()
mine = {k: v for k, v in ann.items() if rx.search(k)}
print('%d harnesses' % len(mine))
tag = 'dev-%d' % os.getpid() if '--tag' not in sys.argv else sys.argv[sys.argv.index('--tag') + 1]
sdir, info = stage_mod.stage(tag)
t0 = time.time()
res, log = kani_run.run_kani(sdir, sorted(v['harness'] for v in mine.values()), timeout, jobs=16,
                             log_path=os.path.join(os.path.dirname(sdir), 'kani.log'))
print('wall %.1fs' % (time.time() - t0))
if res is None:
    print('\n'.join(l for l in log.splitlines() if 'error' in l or l.startswith('  -->') or l.startswith('   |'))[:6000])
    sys.exit(2)
for oid, v in sorted(mine.items()):
    r = res.get(v['harness'])
    if r is None:
        print('%-50s NOT RUN' % oid); continue
    extra = ''
    if r['failed']:
        extra = ' FAILED: ' + '; '.join(sorted(set(f['description'] for f in r['failed']))[:4])
    if r['bound_failed']:
        extra += ' BOUND: ' + r['bound_failed'][0]['description']
    if r['error']:
        extra += ' ERR: %s' % r['error'].get('exit_status')
    print('%-50s %-8s %6.1fs solver=%s checks=%d%s' % (oid, r['status'], (r['duration_ms'] or 0) / 1000, r['solver_s'], r['n_checks'], extra))
print('stage dir:', sdir)
