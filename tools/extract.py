"""E1: expand a Verus contract template against the CURRENT /repo working tree.

Template directives (everything else in the template is copied as is - it is contract text: prelude stub
types, assume_specifications, spec functions, lemmas):

  //@struct <file> <Name>            type definition from the repo (derives filtered, fields made pub)
  //@enum   <file> <Name> [noclone]  (noclone: derive(Clone) dropped; the template supplies `impl Clone` with an assumed spec;
                                      structural: `Structural` added next to the derived PartialEq/Eq so that exec `==` is spec `==`)
  //@impl   <file> <impl anchor>     emits the repo's impl header + '{'   (anchor: `impl T` | `impl Tr for T`)
  //@endimpl                         emits '}'
  //@fn <file> <impl anchor|-> <name> [ret=<ident>]
  //@| <clause text>                 (requires/ensures/decreases lines placed between signature and body)
  //@loop <ordinal> | <invariant text>   (invariant block for the n-th `while`/`for`/`loop` of that fn; 1-based)
  //@loopvar <ordinal> <name>        (`for PAT in EXPR` of that loop becomes `for PAT in <name>: EXPR` - Verus' syntax for
                                      naming the ghost iterator so that an invariant can mention its position)
  //@extern <file> <impl anchor|-> <name> [ret=<ident>]   like //@fn, but ONLY the signature is taken from the repo: the body is
                                      replaced by `unimplemented!()` under #[verifier::external_body] and the //@| clauses
                                      are its ASSUMED contract (discharged by another unit, named in the template)
  //@fn? / //@extern?                like //@fn / //@extern, but an absent anchor is skipped (helper functions that a refactoring
                                      may inline; the property-carrying caller is still verified); recorded in the sidecar
  //@dropstmt <needle> | <replacement>   the statement of the body that STARTS with <needle> (up to its terminating `;` at the same
                                      nesting depth) is replaced by <replacement>.  Used only for a statement whose closure argument is
                                      outside Verus' subset; the dropped text is recorded (it is NOT verified) - see DESIGN 9.2 rule 11
  //@liftretain <needle> | <name> | <container type> | <extra locals `a: T, b: U`>
  //@lift| <clause>                  the statement `RECV.retain(|PAT| { BODY });` that starts with <needle> is rewritten (DESIGN 9.2 rule 14):
                                      (1) the closure is LIFTED into `fn <name>(<captures>, PAT: &Elem) -> (keep: bool) <//@lift| clauses> { BODY }`
                                          - BODY byte-for-byte; captures = the enclosing fn's parameters, `let [mut] x = true|false;` locals and the
                                          listed extra locals whose names occur free in BODY (passed by value / reborrow);
                                      (2) the statement becomes the loop that std documents for retain (each element visited exactly once, front to
                                          back, kept iff the closure returns true, order of kept elements preserved):
                                          `let mut verif_kept = <container>::new(); for PAT in verif_it: RECV.iter() { if <name>(..) { verif_kept.push_back(*PAT); } } RECV = verif_kept;`
                                      //@lift.pre | <ghost text> goes before that loop, //@lift.post | <ghost text> at the end of its body.
  //@liftscope <needle> | <name> | <extra locals `a: T, b: U`>   (DESIGN 9.2 rule 16; clauses with //@lift| as for liftretain)
                                      the statement `W.resource_scope(move |w, mut r: Mut<R>| { BODY });` is rewritten: the closure is lifted into
                                      `fn <name>(<captures>, w: &mut World, r: Mut<R>) { BODY }` (BODY byte-for-byte) and the statement becomes what Bevy documents for
                                      resource_scope: `{ let mut verif_res: R = W.verif_scope_take::<R>(); <name>(.., W, &mut verif_res); W.verif_scope_put(verif_res); }`
  //@liftposition <needle> | <name> | <elem type> | <extra locals>   (DESIGN 9.2 rule 17; //@lift| = contract of <name>, //@lift.pred| = contract of
                                      <name>_pred, //@lift.inv| = invariant of the generated loop)
                                      in the statement that starts with <needle>, the expression `RECV.iter().position(|PAT| EXPR)` becomes `<name>(&RECV, <captures>)`;
                                      the closure is lifted into `fn <name>_pred(verif_x: &Elem, <captures>) -> bool { let PAT = verif_x; EXPR }` (EXPR byte-for-byte) and
                                      <name> is the loop std documents for Iterator::position (elements tested front to back, index of the FIRST match, None if none);
                                      //@lift.found| / //@lift.none| = proof lines (erased) at the two exits of that loop
  //@mapdefault <needle> | <V1, V2, ..>   (DESIGN 9.2 rule 18) in the statement that starts with <needle>, the k-th occurrence of
                                      `X.map(|p| EXPR).unwrap_or_default()` is read as `(match X { Vk(p) => EXPR, _ => Default::default() })` (Vk = Ok | Some)
  //@sigsubst <from> | <to>          (DESIGN 9.2 rule 19) textual substitution in the SIGNATURE only: a parameter type Verus cannot express (a function pointer
                                      type `fn(&mut World)`) is replaced by a named opaque stand-in type of the template; the call through it is then a //@dropstmt
  //@mapor <needle>                  (DESIGN 9.2 rule 20) in the statement that starts with <needle>, every `X.map_or(None, |p| EXPR)` is read as
                                      `(match X { Some(p) => EXPR, None => None })` (std: Option::map_or)
  //@thunk <closure text> | <name> | <generics> | <turbofish> | <ret type>   (DESIGN 9.2 rule 21; contract with //@lift|) every occurrence of the argument-less closure
                                      `|| EXPR` (given literally) in the body becomes the fn item `<name><turbofish>`, emitted as `fn <name><generics>() -> (r: <ret>) { EXPR }`
  //@liftdrainfilter <needle> | <name> | <elem type> | <extra locals>   (DESIGN 9.2 rule 22; //@lift| = contract of the lifted predicate, //@lift.inv| = loop invariant,
                                      //@lift.pre| / //@lift.removed| / //@lift.kept| = ghost lines before the loop / in the two branches)
                                      the statement `RECV.drain_filter(|PAT| { BODY });` (result dropped) becomes the loop smallvec documents: elements are tested front to
                                      back, each exactly once; those for which the closure returns true are removed, the others keep their order.  The closure is lifted
                                      into `fn <name>(verif_x: &Elem, <captures>) -> bool { let PAT = verif_x; BODY-statements }` (BODY byte-for-byte; `&` instead of the `&mut`
                                      the closure receives - a closure that mutated the element would not compile here)
  //@liftfind <needle> | <name> | <item type> | <iterator type> | <extra locals>   (DESIGN 9.2 rule 23; //@lift| contract of <name>, //@lift.pred| of <name>_pred, //@lift.inv| loop invariant)
                                      in the statement that starts with <needle>, `ITER_EXPR.find(|PAT| EXPR)` becomes `<name>(ITER_EXPR, <captures>)`: the loop std documents for
                                      Iterator::find (items tested in order, the FIRST one for which the predicate is true is returned, None if there is none), the closure
                                      lifted into `fn <name>_pred(verif_x: &Item, <captures>) -> bool { let PAT = verif_x; EXPR }`
  //@selfrename <type>               (DESIGN 9.2 rule 27) a trait-impl method whose Self is a type alias of a reference (`impl Ext for EntityCommands<'a>`) is emitted as a free
                                      function: `&mut self` becomes `verif_self: &mut <type>` and every `self` of the body `verif_self` (method call = function call with an explicit receiver)
  //@liftsys <needle> | <name> | <generics> | <turbofish>   (DESIGN 9.2 rule 28; contract with //@lift|) in the statement that starts with <needle>, the closure `|PARAMS| { BODY }`
                                      passed as a Bevy system is lifted into `fn <name><generics>(PARAMS) { BODY }` (PARAMS and BODY byte-for-byte; `In(..)` patterns desugared as for
                                      any system fn) and the closure text is replaced by `<name><turbofish>`; the closure must not capture (a capture is a compile error = exit 2)
  //@okmap? <needle>                 (DESIGN 9.2 rule 15) the statement `E.ok().map(|p| CALL);` that starts with <needle> - value discarded - is read as
                                      `if let Ok(p) = E { CALL; }` (std: Result::ok + Option::map call the closure exactly when E is Ok, with its payload);
                                      skipped (recorded) when no such statement exists, e.g. because the code already uses `if let` / `let else`
  //@foreach[?] <needle>             (DESIGN 9.2 rule 29; with `?`: if the statement is absent the loop annotations of the fn are dropped and the body is verified as written) the statement `ITER.for_each(|p| EXPR);` that starts with <needle> is read as `for p in ITER { EXPR; }`
                                      (std: Iterator::for_each calls the closure on each item, in order; same as a for loop); applied BEFORE the loop directives, so the
                                      generated loop has an ordinal like any other
  //@continue_to_else <ordinal>      in the body of the n-th loop (a `for`), `if COND { continue; } REST` becomes `if COND {} else { REST }`
                                      (Verus' for-loops do not support `continue`; same control flow) - DESIGN 9.2 rule 12
  //@letelse_continue <ordinal>      in the body of the n-th loop (a `for`), `let PAT = EXPR else { continue; }; REST` becomes `if let PAT = EXPR { REST }` (rule 12b)
  //@loopbody <ordinal> | <text>     ghost/proof line placed right after the opening brace of the n-th loop's body (erased code)
  //@loopend <ordinal> | <text>      ghost/proof line placed right before the closing brace of the n-th loop's body (fall-through end of an iteration; erased code)
  //@loopafter <ordinal> | <text>    ghost/proof line placed right after the closing brace of the n-th loop (erased code)
  //@before <needle> | <text>        ghost/proof line placed before the statement that starts with <needle> (erased code)
  //@after <needle> | <text>         ghost/proof line placed right after the statement that starts with <needle> (its end = the `;` at the same nesting depth; erased code)
  //@atreturn | <text>               ghost/proof line placed before EVERY `return` of the body (after closure lifting) and before its closing brace: an obligation on
                                      every exit, also on exits a change adds (erased code)
  //@atend | <text>                  ghost/proof line placed before the closing brace of the body (fall-through exit only; erased code)
  //@ghost | <text>                  (ghost/proof line placed right after the opening brace of the body; erased code)

Parameter patterns `In(pat): In<T>` (Bevy system input) are not accepted by the verus! macro; they are desugared the
way Rust defines them: the parameter is named `verif_in` and `let In(pat) = verif_in;` becomes the first statement.

Function bodies are copied byte-for-byte, then DROP rules (rustcut.DROP_MACROS, whole statements) are applied.
Everything dropped is recorded in the sidecar returned by expand().
"""
import hashlib
import os
import re
import sys

sys.path.insert(0, os.path.dirname(os.path.abspath(__file__)))
import rustcut as rc
from rustcut import CutError

KEEP_DERIVES = {'Clone', 'Copy', 'PartialEq', 'Eq', 'Debug', 'Default'}


def _filter_attrs(attrs, info):
    out = []
    for line in attrs.splitlines():
        s = line.strip()
        if s.startswith('///') or s == '':
            continue
        m = re.match(r'#\[derive\((.*)\)\]$', s)
        if m:
            names = [x.strip() for x in m.group(1).split(',') if x.strip()]
            keep = [x for x in names if x in KEEP_DERIVES]
            for x in names:
                if x not in KEEP_DERIVES:
                    info['dropped_derives'].append(x)
            if keep:
                out.append('#[derive(%s)]' % ', '.join(keep))
            continue
        if s.startswith('#[allow') or s.startswith('#[inline'):
            continue
        out.append(s)
    return '\n'.join(out) + ('\n' if out else '')


def _widen_type(text):
    """pub on the type and on every named field (depth-1 `ident: Type`)."""
    text = re.sub(r'^' + rc.VIS + r'(struct|enum)\b', r'pub \1', text, count=1)
    m = re.match(r'pub enum\b', text)
    if m:
        return _strip_doc_lines(text)
    ob = text.find('{')
    if ob < 0:
        # tuple / unit struct: widen tuple fields
        def fix(mm):
            inner = mm.group(1)
            parts = [p.strip() for p in inner.split(',') if p.strip()]
            parts = ['pub ' + re.sub(r'^pub(\s*\([^)]*\))?\s+', '', p) for p in parts]
            return '(' + ', '.join(parts) + ')'
        return re.sub(r'\((.*)\)', fix, text, count=1, flags=re.S)
    head, body = text[:ob], text[ob:]
    lines = []
    for line in body.splitlines():
        s = line.strip()
        if s.startswith('///') or s.startswith('//'):
            continue
        mm = re.match(r'^(\s*)(?:pub(?:\s*\([^)]*\))?\s+)?([A-Za-z_][A-Za-z0-9_]*\s*:.*)$', line)
        if mm and not s.startswith('{'):
            line = mm.group(1) + 'pub ' + mm.group(2)
        lines.append(line)
    return head + '\n'.join(lines)


def _strip_doc_lines(text):
    return '\n'.join(l for l in text.splitlines() if not l.strip().startswith('///'))


def _name_return(sig, ret):
    """`-> T` => `-> (ret: T)` (Verus needs a named return to talk about it)."""
    pd = 0
    arrow = None
    i = 0
    while i < len(sig) - 1:
        c = sig[i]
        if c in '([<':
            pd += 1 if c != '<' else 0
        elif c in ')]':
            pd -= 1
        if sig.startswith('->', i) and pd == 0:
            arrow = i
        i += 1
    if arrow is None:
        raise CutError('ret= given but fn has no return type: ' + sig.strip())
    rest = sig[arrow + 2:]
    mw = re.search(r'\bwhere\b', rest)
    ty = rest[:mw.start()] if mw else rest
    tail = rest[mw.start():] if mw else ''
    return sig[:arrow] + '-> (%s: %s)\n' % (ret, ty.strip()) + tail


def _loop_bodies(body):
    """(keyword, body open brace, body close brace) of every loop, in source order."""
    out = []
    rx = re.compile(r'(while|for|loop)\b')
    for j, d in rc.code_positions(body):
        if j > 0 and (body[j - 1].isalnum() or body[j - 1] == '_'):
            continue
        m = rx.match(body, j)
        if not m:
            continue
        pd = 0
        for k, _ in rc.code_positions(body, m.end()):
            c = body[k]
            if c in '([': pd += 1
            elif c in ')]': pd -= 1
            elif c == '{' and pd == 0:
                out.append((m.group(1), k, rc.match_close(body, k)))
                break
    return out


def _continue_to_else(body, ordinal, fname):
    loops = _loop_bodies(body)
    if ordinal < 1 or ordinal > len(loops) or loops[ordinal - 1][0] != 'for':
        raise CutError('fn %s: continue_to_else: loop %d is not a for loop' % (fname, ordinal))
    _, ob, cb = loops[ordinal - 1]
    m = re.compile(r'\{\s*continue\s*;\s*\}').search(body, ob, cb)
    if not m:
        raise CutError('fn %s: continue_to_else: no `{ continue; }` block in loop %d' % (fname, ordinal))
    return body[:m.start()] + '{} else {' + body[m.end():cb] + '}' + body[cb:]


def _letelse_continue(body, ordinal, fname):
    """Rule 12b: in the n-th loop (a `for`), `let PAT = EXPR else { continue; }; REST` becomes `if let PAT = EXPR { REST }`."""
    loops = _loop_bodies(body)
    if ordinal < 1 or ordinal > len(loops) or loops[ordinal - 1][0] != 'for':
        raise CutError('fn %s: letelse_continue: loop %d is not a for loop' % (fname, ordinal))
    _, ob, cb = loops[ordinal - 1]
    m = re.compile(r'(?s)\blet\s+((?:(?!\blet\b).)*?)\s*=\s*((?:(?!\blet\b).)*?)\s*else\s*\{\s*continue\s*;\s*\}\s*;').search(body, ob, cb)
    if not m:
        raise CutError('fn %s: letelse_continue: no `let .. else { continue; };` in loop %d' % (fname, ordinal))
    return body[:m.start()] + 'if let %s = %s {' % (m.group(1), m.group(2)) + body[m.end():cb] + '}' + body[cb:]


def _replace_statement(body, needle, rep, fname):
    """Replace the statement starting with `needle` (whitespace-insensitive) by `rep`. Returns (new_body, dropped_text)."""
    rx = re.compile(r'\s*'.join(re.escape(tok) for tok in needle.split()))
    start = None
    for j, d in rc.code_positions(body):
        if rx.match(body, j) and (j == 0 or not (body[j - 1].isalnum() or body[j - 1] == '_')):
            start = j; break
    if start is None:
        raise CutError('fn %s: statement to replace not found: %s' % (fname, needle))
    depth = 0
    end = None
    for k, d in rc.code_positions(body, start):
        c = body[k]
        if c in '([{': depth += 1
        elif c in ')]}': depth -= 1
        elif c == ';' and depth == 0:
            end = k; break
    if end is None:
        raise CutError('fn %s: end of statement not found: %s' % (fname, needle))
    return body[:start] + rep + body[end + 1:], body[start:end + 1]



def _lift_retain(body, sig, needle, name, container, extra, pre, post, fname, inv=(), search_from=0):
    """Rule 14. Returns (new_body, header, closure body, info, resume position) or None when no further statement matches."""
    rx = re.compile(r'\s*'.join(re.escape(tok) for tok in needle.split()))
    start = None
    for j, d in rc.code_positions(body, search_from):
        if rx.match(body, j) and (j == 0 or not (body[j - 1].isalnum() or body[j - 1] == '_')):
            start = j; break
    if start is None:
        return None
    depth, end = 0, None
    for k, d in rc.code_positions(body, start):
        c = body[k]
        if c in '([{': depth += 1
        elif c in ')]}': depth -= 1
        elif c == ';' and depth == 0:
            end = k; break
    if end is None:
        raise CutError('fn %s: end of retain statement not found' % fname)
    stmt = body[start:end + 1]
    m = re.match(r'(?s)\s*([A-Za-z_][A-Za-z0-9_]*)\s*\.\s*retain\s*\(\s*\|\s*([A-Za-z_][A-Za-z0-9_]*)\s*\|', stmt)
    if not m:
        raise CutError('fn %s: retain statement is not `RECV.retain(|x| ..);`' % fname)
    recv, pat = m.group(1), m.group(2)
    rest = stmt[m.end():]
    if rest.lstrip().startswith('{'):
        ob = m.end() + (len(rest) - len(rest.lstrip()))
        cb = rc.match_close(stmt, ob)
        if not re.match(r'(?s)\s*\)\s*;\s*$', stmt[cb + 1:]):
            raise CutError('fn %s: retain statement has text after the closure' % fname)
        cbody = stmt[ob:cb + 1]
    else:
        # expression closure `|x| EXPR`: the body is the expression (wrapped in braces, nothing else added)
        mm = re.match(r'(?s)(.*)\)\s*;\s*$', rest)
        if not mm:
            raise CutError('fn %s: retain statement is not `RECV.retain(|x| EXPR);`' % fname)
        cbody = '{ ' + mm.group(1).strip() + ' }'
    # capture candidates: parameters of the enclosing fn, bool-literal locals, listed locals
    cands, forced = [], []
    po = sig.index('(')
    pc = rc.match_close(sig, po, '(', ')')
    for prm in _split_top(sig[po + 1:pc]):
        if ':' in prm:
            nm, ty = prm.split(':', 1)
            nm = nm.strip()
            if nm.startswith('mut '): nm = nm[4:].strip()
            if re.match(r'^[A-Za-z_][A-Za-z0-9_]*$', nm):
                cands.append((nm, ty.strip()))
                if ty.strip().startswith('&mut'):
                    forced.append(nm)   # exclusive borrows are always handed on (a closure that ignores them leaves them unchanged)
    for mm in re.finditer(r'\blet\s+(?:mut\s+)?([A-Za-z_][A-Za-z0-9_]*)\s*=\s*(true|false)\s*;', body[:start]):
        cands.append((mm.group(1), 'bool'))
    for item in [x for x in extra.split(',') if x.strip()]:
        nm, ty = item.split(':', 1)
        cands.append((nm.strip(), ty.strip()))
    free = _free_captures(cbody, cands, [pat])
    caps = [c for c in cands if c[0] in forced] + [c for c in free if c[0] not in forced]
    elem = re.search(r'<(.*)>\s*$', container).group(1)
    params = ', '.join(['%s: %s' % c for c in caps] + ['%s: &%s' % (pat, elem)])
    args = ', '.join([c[0] for c in caps] + [pat])
    header = 'pub fn %s(%s) -> (keep: bool)' % (name, params)
    ind = '\n    '
    loop = ('let mut verif_kept: %s = %s::new();' % (container, re.sub(r'<.*$', '', container)) + ind
            + ''.join(l + ind for l in pre)
            + 'for %s in verif_it: %s.iter()' % (pat, recv) + ind
            + ('    invariant ' + ' '.join(x.strip() for x in inv) + ind if inv else '')
            + '{' + ind
            + '    if %s(%s) { verif_kept.push_back(*%s); }' % (name, args, pat) + ind
            + ''.join('    ' + l + ind for l in post)
            + '}' + ind + '%s = verif_kept;' % recv)
    info = {'fn': fname, 'lifted': name, 'captures': ['%s: %s' % c for c in caps], 'closure_sha256': hashlib.sha256(cbody.encode()).hexdigest()[:16],
            'statement_head': re.sub(r'\s+', ' ', stmt)[:100],
            'assumed': 'std retain(f): every element visited exactly once, front to back; kept iff f returns true; order of kept elements preserved'}
    return body[:start] + loop + body[end + 1:], header, cbody, info, start + len(loop)


def _okmap(body, needle, fname):
    """Rule 15. Returns (new_body, info|None)."""
    rx = re.compile(r'\s*'.join(re.escape(tok) for tok in needle.split()))
    start = None
    for j, d in rc.code_positions(body):
        if rx.match(body, j) and (j == 0 or not (body[j - 1].isalnum() or body[j - 1] == '_')):
            start = j; break
    if start is None:
        return body, None
    depth, end = 0, None
    for k, d in rc.code_positions(body, start):
        c = body[k]
        if c in '([{': depth += 1
        elif c in ')]}': depth -= 1
        elif c == ';' and depth == 0:
            end = k; break
    if end is None:
        return body, None
    stmt = body[start:end]
    m = re.match(r'(?s)^(.*)\.\s*ok\s*\(\s*\)\s*\.\s*map\s*\(\s*\|\s*([A-Za-z_][A-Za-z0-9_]*)\s*\|\s*(.*)\)\s*$', stmt)
    if not m:
        return body, None
    expr, pat, call = m.group(1).strip(), m.group(2), m.group(3).strip()
    # the closure body must be one balanced expression without a block of its own
    d = 0
    for ch in call:
        if ch in '([{': d += 1
        elif ch in ')]}': d -= 1
        if d < 0:
            return body, None
    if d != 0 or call.startswith('{'):
        return body, None
    new = 'if let Ok(%s) = %s { %s; }' % (pat, expr, call)
    return body[:start] + new + body[end + 1:], {'fn': fname, 'from': re.sub(r'\s+', ' ', stmt) + ';', 'to': new}


def _foreach(body, needle, fname):
    """Rule 29. Returns (new_body, info|None)."""
    rx = re.compile(r'\s*'.join(re.escape(tok) for tok in needle.split()))
    start = None
    for j, d in rc.code_positions(body):
        if rx.match(body, j) and (j == 0 or not (body[j - 1].isalnum() or body[j - 1] == '_')):
            start = j; break
    if start is None:
        return body, None
    depth, end = 0, None
    for k, d in rc.code_positions(body, start):
        c = body[k]
        if c in '([{': depth += 1
        elif c in ')]}': depth -= 1
        elif c == ';' and depth == 0:
            end = k; break
    if end is None:
        return body, None
    stmt = body[start:end]
    m = re.match(r'(?s)^(.*)\.\s*for_each\s*\(\s*\|\s*([A-Za-z_][A-Za-z0-9_]*)\s*\|\s*(.*)\)\s*$', stmt)
    if not m:
        return body, None
    it, pat, call = m.group(1).strip(), m.group(2), m.group(3).strip()
    d = 0
    for ch in call:
        if ch in '([{': d += 1
        elif ch in ')]}': d -= 1
        if d < 0:
            return body, None
    if d != 0 or call.startswith('{'):
        return body, None
    new = 'for %s in %s { %s; }' % (pat, it, call)
    return body[:start] + new + body[end + 1:], {'fn': fname, 'from': re.sub(r'\s+', ' ', stmt) + ';', 'to': new}


def _split_top(text):
    out, depth, cur = [], 0, ''
    for ch in text + ',':
        if ch in '([<{': depth += 1
        elif ch in ')]>}': depth -= 1
        if ch == ',' and depth == 0:
            if cur.strip(): out.append(cur.strip())
            cur = ''
        else:
            cur += ch
    return out


def _free_captures(cbody, cands, exclude):
    caps, seen = [], set(exclude)
    code = set(j for j, d in rc.code_positions(cbody))
    for nm, ty in cands:
        if nm in seen:
            continue
        for mm in re.finditer(r'(?<![A-Za-z0-9_.])' + re.escape(nm) + r'(?![A-Za-z0-9_])', cbody):
            if mm.start() in code:
                caps.append((nm, ty)); seen.add(nm); break
    return caps


def _lift_scope(body, sig, needle, name, extra, fname):
    """Rule 16. Returns (new_body, header, closure_body, info)."""
    rx = re.compile(r'\s*'.join(re.escape(tok) for tok in needle.split()))
    start = None
    for j, d in rc.code_positions(body):
        if rx.match(body, j) and (j == 0 or not (body[j - 1].isalnum() or body[j - 1] == '_')):
            start = j; break
    if start is None:
        raise CutError('fn %s: resource_scope statement not found: %s' % (fname, needle))
    depth, end = 0, None
    for k, d in rc.code_positions(body, start):
        c = body[k]
        if c in '([{': depth += 1
        elif c in ')]}': depth -= 1
        elif c == ';' and depth == 0:
            end = k; break
    if end is None:
        raise CutError('fn %s: end of resource_scope statement not found' % fname)
    stmt = body[start:end + 1]
    m = re.match(r'(?s)\s*([A-Za-z_][A-Za-z0-9_]*)\s*\.\s*resource_scope\s*\(\s*(?:move\s+)?\|([^|]*)\|\s*\{', stmt)
    if not m:
        raise CutError('fn %s: statement is not `W.resource_scope(|w, r: Mut<R>| { .. });`' % fname)
    recv = m.group(1)
    ob = m.end() - 1
    cb = rc.match_close(stmt, ob)
    if not re.match(r'(?s)\s*\)\s*;\s*$', stmt[cb + 1:]):
        raise CutError('fn %s: resource_scope statement has text after the closure' % fname)
    cbody = stmt[ob:cb + 1]
    ps = _split_top(m.group(2))
    if len(ps) != 2:
        raise CutError('fn %s: resource_scope closure does not have two parameters' % fname)
    wname = ps[0].split(':')[0].strip()
    rpat, rty = [x.strip() for x in ps[1].split(':', 1)]
    rname = rpat[4:].strip() if rpat.startswith('mut ') else rpat
    mr = re.match(r'Mut\s*<\s*(.*)\s*>$', rty)
    if not mr:
        raise CutError('fn %s: resource_scope closure parameter is not Mut<R>' % fname)
    res = mr.group(1)
    cands = []
    for item in [x for x in extra.split(',') if x.strip()]:
        nm, ty = item.split(':', 1)
        cands.append((nm.strip(), ty.strip()))
    po = sig.index('(')
    pc = rc.match_close(sig, po, '(', ')')
    for prm in _split_top(sig[po + 1:pc]):
        if ':' in prm:
            nm, ty = prm.split(':', 1)
            nm = nm.strip()
            if nm.startswith('mut '): nm = nm[4:].strip()
            if re.match(r'^[A-Za-z_][A-Za-z0-9_]*$', nm):
                cands.append((nm, ty.strip()))
    caps = _free_captures(cbody, cands, [wname, rname])
    params = ', '.join(['%s: %s' % c for c in caps] + ['%s: &mut World' % wname, '%s: %s' % (rname, rty)])
    args = ', '.join([c[0] for c in caps] + [recv, '&mut verif_res'])
    header = 'pub fn %s(%s)' % (name, params)
    new = '{ let mut verif_res: %s = %s.verif_scope_take::<%s>(); %s(%s); %s.verif_scope_put(verif_res); }' % (res, recv, res, name, args, recv)
    info = {'fn': fname, 'lifted': name, 'captures': ['%s: %s' % c for c in caps], 'closure_sha256': hashlib.sha256(cbody.encode()).hexdigest()[:16],
            'statement_head': re.sub(r'\s+', ' ', stmt)[:100],
            'assumed': 'bevy World::resource_scope(f): the resource is removed from the world, f(world, resource) is called once, the resource is put back'}
    return body[:start] + new + body[end + 1:], header, cbody, info


def _lift_position(body, sig, needle, name, elem, extra, clauses, pred_clauses, inv, fname, in_impl, found=(), none=()):
    """Rule 17. Returns (new_body, [fn texts], info)."""
    rx = re.compile(r'\s*'.join(re.escape(tok) for tok in needle.split()))
    start = None
    for j, d in rc.code_positions(body):
        if rx.match(body, j) and (j == 0 or not (body[j - 1].isalnum() or body[j - 1] == '_')):
            start = j; break
    if start is None:
        raise CutError('fn %s: statement with position() not found: %s' % (fname, needle))
    m = re.compile(r'([A-Za-z_][A-Za-z0-9_.]*)\s*\.\s*iter\s*\(\s*\)\s*\.\s*position\s*\(\s*\|').search(body, start)
    if not m or body[start:m.start()].count(';'):
        raise CutError('fn %s: no `X.iter().position(|..| ..)` in the statement %s' % (fname, needle))
    recv = m.group(1)
    po = body.index('(', body.index('position', m.start()))
    pc = rc.match_close(body, po, '(', ')')
    inner = body[po + 1:pc].strip()
    # |PAT| EXPR  (PAT may contain parentheses but no `|`)
    assert inner.startswith('|')
    bar = inner.index('|', 1)
    pat, expr = inner[1:bar].strip(), inner[bar + 1:].strip()
    cands = []
    so = sig.index('(')
    sc = rc.match_close(sig, so, '(', ')')
    for prm in _split_top(sig[so + 1:sc]):
        if ':' in prm:
            nm, ty = prm.split(':', 1)
            nm = nm.strip()
            if nm.startswith('mut '): nm = nm[4:].strip()
            if re.match(r'^[A-Za-z_][A-Za-z0-9_]*$', nm):
                cands.append((nm, ty.strip()))
    for item in [x for x in extra.split(',') if x.strip()]:
        nm, ty = item.split(':', 1)
        cands.append((nm.strip(), ty.strip()))
    bound = re.findall(r'[A-Za-z_][A-Za-z0-9_]*', pat)
    caps = _free_captures(expr, cands, bound)
    prefix = 'Self::' if in_impl else ''
    cparams = ''.join(', %s: %s' % c for c in caps)
    cargs = ''.join(', %s' % c[0] for c in caps)
    pred = ('    pub fn %s_pred(verif_x: &%s%s) -> (b: bool)\n%s\n    {\n        let %s = verif_x;\n        %s\n    }'
            % (name, elem, cparams, '\n'.join(pred_clauses), pat, expr))
    loop = ('    pub fn %s(verif_v: &Vec<%s>%s) -> (r: Option<usize>)\n%s\n    {\n        let mut verif_i: usize = 0;\n        while verif_i < verif_v.len()\n'
            '            invariant %s\n            decreases verif_v@.len() - verif_i,\n        {\n'
            '            if %s%s_pred(&verif_v[verif_i]%s) { %s return Some(verif_i); }\n            verif_i += 1;\n        }\n        %s\n        None\n    }'
            % (name, elem, cparams, '\n'.join(clauses), ' '.join(x.strip() for x in inv), prefix, name, cargs, ' '.join(found), ' '.join(none)))
    new = '%s%s(&%s%s)' % (prefix, name, recv, cargs)
    closure_text = body[m.start():pc + 1]
    info = {'fn': fname, 'lifted': name, 'captures': ['%s: %s' % c for c in caps], 'closure_sha256': hashlib.sha256(closure_text.encode()).hexdigest()[:16],
            'statement_head': re.sub(r'\s+', ' ', closure_text)[:100],
            'assumed': 'std Iterator::position(f) on a slice iterator: elements tested front to back, returns the index of the FIRST element for which f is true, None if there is none'}
    return body[:m.start()] + new + body[pc + 1:], [pred, loop], info


def _mapdefault(body, needle, variants, fname):
    """Rule 18. Returns (new_body, [info]).  needle `*` = the whole body (occurrences counted in source order)."""
    if needle.strip() == '*':
        start, end = 0, len(body) - 1
    else:
        rx = re.compile(r'\s*'.join(re.escape(tok) for tok in needle.split()))
        start = None
        for j, d in rc.code_positions(body):
            if rx.match(body, j) and (j == 0 or not (body[j - 1].isalnum() or body[j - 1] == '_')):
                start = j; break
        if start is None:
            raise CutError('fn %s: statement for mapdefault not found: %s' % (fname, needle))
        depth, end = 0, None
        for k, d in rc.code_positions(body, start):
            c = body[k]
            if c in '([{': depth += 1
            elif c in ')]}': depth -= 1
            elif c == ';' and depth == 0:
                end = k; break
    stmt = body[start:end + 1]
    infos = []
    for v in variants:
        m = re.search(r'([A-Za-z_][A-Za-z0-9_]*)\s*\.\s*map\s*\(\s*\|\s*([A-Za-z_][A-Za-z0-9_]*)\s*\|', stmt)
        if not m:
            raise CutError('fn %s: fewer `.map(|p| ..).unwrap_or_default()` than listed variants' % fname)
        po = stmt.index('(', m.start(0) + len(m.group(1)))
        pc = rc.match_close(stmt, po, '(', ')')
        tail = re.match(r'\s*\.\s*unwrap_or_default\s*\(\s*\)', stmt[pc + 1:])
        if not tail:
            raise CutError('fn %s: `.map(..)` is not followed by `.unwrap_or_default()`' % fname)
        expr = stmt[m.end():pc].strip()
        new = '(match %s { %s(%s) => %s, _ => Default::default() })' % (m.group(1), v, m.group(2), expr)
        infos.append({'fn': fname, 'from': re.sub(r'\s+', ' ', stmt[m.start():pc + 1 + tail.end()]), 'to': new})
        stmt = stmt[:m.start()] + new + stmt[pc + 1 + tail.end():]
    return body[:start] + stmt + body[end + 1:], infos


def _mapor(body, needle, fname):
    """Rule 20."""
    rx = re.compile(r'\s*'.join(re.escape(tok) for tok in needle.split()))
    start = None
    for j, d in rc.code_positions(body):
        if rx.match(body, j) and (j == 0 or not (body[j - 1].isalnum() or body[j - 1] == '_')):
            start = j; break
    if start is None:
        raise CutError('fn %s: statement for mapor not found: %s' % (fname, needle))
    infos, pos = [], start
    while True:
        m = re.compile(r'\.\s*map_or\s*\(\s*None\s*,\s*\|\s*([A-Za-z_][A-Za-z0-9_]*)\s*\|').search(body, pos)
        if not m:
            break
        # receiver expression: back to the start of the postfix chain (identifier chars, dots, balanced parens/brackets, `&`, `::`, `<`, `>`)
        i = m.start()
        depth = 0
        while i > 0:
            c = body[i - 1]
            if c in ')]': depth += 1
            elif c in '([':
                if depth == 0: break
                depth -= 1
            elif depth == 0 and not (c.isalnum() or c in '_.:&<>' ):
                break
            i -= 1
        recv = body[i:m.start()].strip()
        po = body.index('(', m.start())
        pc = rc.match_close(body, po, '(', ')')
        expr = body[m.end():pc].strip()
        new = '(match %s { Some(%s) => %s, None => None })' % (recv, m.group(1), expr)
        infos.append({'fn': fname, 'from': re.sub(r'\s+', ' ', body[i:pc + 1]), 'to': new})
        lead = body[i:m.start()]
        body = body[:i] + lead[:len(lead) - len(lead.lstrip())] + new + body[pc + 1:]
        pos = i + len(new)
        # only within the statement: stop at the first one unless more follow before the statement's end
        break
    if not infos:
        raise CutError('fn %s: no `.map_or(None, |p| ..)` in statement %s' % (fname, needle))
    return body, infos


def _thunk(body, closure_text, name, turbofish, fname):
    """Rule 21: replace every literal occurrence of `|| EXPR`."""
    rx = re.compile(r'\s*'.join(re.escape(tok) for tok in closure_text.split()))
    n, out, last = 0, [], 0
    code = set(j for j, d in rc.code_positions(body))
    for m in rx.finditer(body):
        if m.start() not in code:
            continue
        out.append(body[last:m.start()]); out.append(name + turbofish); last = m.end(); n += 1
    out.append(body[last:])
    if n == 0:
        raise CutError('fn %s: thunk `%s` not found' % (fname, closure_text))
    return ''.join(out), n


def _lift_drain_filter(body, sig, needle, name, elem, extra, lf, fname, in_impl):
    """Rule 22. Returns (new_body, [fn text], info)."""
    rx = re.compile(r'\s*'.join(re.escape(tok) for tok in needle.split()))
    start = None
    for j, d in rc.code_positions(body):
        if rx.match(body, j) and (j == 0 or not (body[j - 1].isalnum() or body[j - 1] == '_')):
            start = j; break
    if start is None:
        raise CutError('fn %s: drain_filter statement not found: %s' % (fname, needle))
    depth, end = 0, None
    for k, d in rc.code_positions(body, start):
        c = body[k]
        if c in '([{': depth += 1
        elif c in ')]}': depth -= 1
        elif c == ';' and depth == 0:
            end = k; break
    stmt = body[start:end + 1]
    m = re.match(r'(?s)\s*([A-Za-z_][A-Za-z0-9_.]*)\s*\.\s*drain_filter\s*\(\s*\|([^|]*)\|\s*\{', stmt)
    if not m:
        raise CutError('fn %s: statement is not `RECV.drain_filter(|PAT| { .. });`' % fname)
    recv, pat = m.group(1), m.group(2).strip()
    ob = m.end() - 1
    cb = rc.match_close(stmt, ob)
    if not re.match(r'(?s)\s*\)\s*;\s*$', stmt[cb + 1:]):
        raise CutError('fn %s: drain_filter statement has text after the closure' % fname)
    cbody = stmt[ob:cb + 1]
    cands = []
    so = sig.index('(')
    sc = rc.match_close(sig, so, '(', ')')
    for prm in _split_top(sig[so + 1:sc]):
        if ':' in prm:
            nm, ty = prm.split(':', 1)
            nm = nm.strip()
            if nm.startswith('mut '): nm = nm[4:].strip()
            if re.match(r'^[A-Za-z_][A-Za-z0-9_]*$', nm):
                cands.append((nm, ty.strip()))
    for item in [x for x in extra.split(',') if x.strip()]:
        nm, ty = item.split(':', 1)
        cands.append((nm.strip(), ty.strip()))
    bound = re.findall(r'[A-Za-z_][A-Za-z0-9_]*', pat)
    caps = _free_captures(cbody, cands, bound)
    prefix = 'Self::' if in_impl else ''
    cparams = ''.join(', %s: %s' % c for c in caps)
    cargs = ''.join(', %s' % c[0] for c in caps)
    inner = cbody.strip()[1:-1]
    pred = ('    pub fn %s(verif_x: &%s%s) -> (b: bool)\n%s\n    {\n        let %s = verif_x;%s    }'
            % (name, elem, cparams, '\n'.join(lf['clauses']), pat, inner))
    ind = '\n        '
    loop = ('{ let mut verif_i: usize = 0;' + ind + ' '.join(lf.get('pre', [])) + ind
            + 'while verif_i < %s.len()' % recv + ind
            + '    invariant ' + ' '.join(x.strip() for x in lf.get('inv', [])) + ind
            + '    decreases %s@.len() - verif_i,' % recv + ind + '{' + ind
            + '    if %s%s(%s.verif_at(verif_i)%s) { let _ = %s.verif_remove(verif_i); %s }' % (prefix, name, recv, cargs, recv, ' '.join(lf.get('removed', []))) + ind
            + '    else { verif_i += 1; %s }' % ' '.join(lf.get('kept', [])) + ind + '}' + ind + ' '.join(lf.get('after', [])) + ' }')
    info = {'fn': fname, 'lifted': name, 'captures': ['%s: %s' % c for c in caps], 'closure_sha256': hashlib.sha256(cbody.encode()).hexdigest()[:16],
            'statement_head': re.sub(r'\s+', ' ', stmt)[:100],
            'assumed': 'smallvec drain_filter(f), result dropped: elements tested front to back, each once; removed iff f returns true; the others keep their order'}
    return body[:start] + loop + body[end + 1:], [pred], info


def _lift_find(body, sig, needle, name, item, itype, extra, lf, fname, in_impl):
    """Rule 23. Returns (new_body, [fn texts], info)."""
    rx = re.compile(r'\s*'.join(re.escape(tok) for tok in needle.split()))
    start = None
    for j, d in rc.code_positions(body):
        if rx.match(body, j) and (j == 0 or not (body[j - 1].isalnum() or body[j - 1] == '_')):
            start = j; break
    if start is None:
        raise CutError('fn %s: statement with find() not found: %s' % (fname, needle))
    m = re.compile(r'\.\s*find\s*\(\s*\|').search(body, start)
    if not m or body[start:m.start()].count(';'):
        raise CutError('fn %s: no `.find(|..| ..)` in the statement %s' % (fname, needle))
    # receiver: the postfix chain before `.find`
    i = m.start()
    depth = 0
    while i > 0:
        c = body[i - 1]
        if c in ')]': depth += 1
        elif c in '([':
            if depth == 0: break
            depth -= 1
        elif depth == 0 and not (c.isalnum() or c in '_.:&<>'):
            break
        i -= 1
    lead = body[i:m.start()]
    recv = lead.strip()
    po = body.index('(', m.start())
    pc = rc.match_close(body, po, '(', ')')
    inner = body[po + 1:pc].strip()
    bar = inner.index('|', 1)
    pat, expr = inner[1:bar].strip(), inner[bar + 1:].strip()
    cands = []
    so = sig.index('(')
    sc = rc.match_close(sig, so, '(', ')')
    for prm in _split_top(sig[so + 1:sc]):
        if ':' in prm:
            nm, ty = prm.split(':', 1)
            nm = nm.strip()
            if nm.startswith('mut '): nm = nm[4:].strip()
            if re.match(r'^[A-Za-z_][A-Za-z0-9_]*$', nm):
                cands.append((nm, ty.strip()))
    for it_ in [x for x in extra.split(',') if x.strip()]:
        nm, ty = it_.split(':', 1)
        cands.append((nm.strip(), ty.strip()))
    bound = re.findall(r'[A-Za-z_][A-Za-z0-9_]*', pat)
    caps = _free_captures(expr, cands, bound)
    prefix = 'Self::' if in_impl else ''
    cparams = ''.join(', %s: %s' % c for c in caps)
    cargs = ''.join(', %s' % c[0] for c in caps)
    pred = ('    pub fn %s_pred(verif_x: &%s%s) -> (b: bool)\n%s\n    {\n        let %s = verif_x;\n        %s\n    }'
            % (name, item, cparams, '\n'.join(lf['pred']), pat, expr))
    loop = ('    pub fn %s(verif_iter: %s%s) -> (r: Option<%s>)\n%s\n    {\n        for verif_x in verif_it: verif_iter\n'
            '            invariant %s\n        {\n'
            '            if %s%s_pred(&verif_x%s) { %s return Some(verif_x); }\n        }\n        %s\n        None\n    }'
            % (name, itype, cparams, item, '\n'.join(lf['clauses']), ' '.join(x.strip() for x in lf['inv']), prefix, name, cargs, ' '.join(lf.get('found', [])), ' '.join(lf.get('none', []))))
    new = '%s%s(%s%s)' % (prefix, name, recv, cargs)
    closure_text = body[m.start():pc + 1]
    info = {'fn': fname, 'lifted': name, 'captures': ['%s: %s' % c for c in caps], 'closure_sha256': hashlib.sha256(closure_text.encode()).hexdigest()[:16],
            'statement_head': re.sub(r'\s+', ' ', closure_text)[:100],
            'assumed': 'std Iterator::find(f): items tested in order, the FIRST item for which f is true is returned, None if there is none'}
    return body[:i] + lead[:len(lead) - len(lead.lstrip())] + new + body[pc + 1:], [pred, loop], info


def _lift_sys(body, needle, name, generics, turbofish, clauses, fname):
    """Rule 28. Returns (new_body, fn text, info)."""
    rx = re.compile(r'\s*'.join(re.escape(tok) for tok in needle.split()))
    start = None
    for j, d in rc.code_positions(body):
        if rx.match(body, j) and (j == 0 or not (body[j - 1].isalnum() or body[j - 1] == '_')):
            start = j; break
    if start is None:
        raise CutError('fn %s: statement for liftsys not found: %s' % (fname, needle))
    # first `|` in the statement that follows `,` or `(` (closure argument)
    p0 = None
    for k, d in rc.code_positions(body, start):
        if body[k] == ';' and d == 0:
            break
        if body[k] == '|':
            q = k - 1
            while q >= 0 and body[q].isspace(): q -= 1
            if body[q] in ',(':
                p0 = k; break
    if p0 is None:
        raise CutError('fn %s: no closure argument in statement %s' % (fname, needle))
    # matching closing bar of the parameter list: first `|` at paren/angle depth 0
    depth, p1 = 0, None
    for k in range(p0 + 1, len(body)):
        c = body[k]
        if c in '([<': depth += 1
        elif c in ')]>': depth -= 1
        elif c == '|' and depth == 0:
            p1 = k; break
    params = body[p0 + 1:p1].strip().rstrip(',')
    ob = body.index('{', p1)
    if body[p1 + 1:ob].strip():
        raise CutError('fn %s: closure body of the system closure is not a block' % fname)
    cb = rc.match_close(body, ob)
    cbody = body[ob:cb + 1]
    sig = 'pub fn %s%s(%s)' % (name, generics, params)
    sig, in_lets = _desugar_in_params(sig)
    fbody = cbody
    if in_lets:
        fbody = cbody[:1] + '\n' + '\n'.join(in_lets) + cbody[1:]
    text = '    ' + sig + '\n' + '\n'.join(clauses) + '\n    ' + fbody
    info = {'fn': fname, 'lifted': name, 'captures': [], 'closure_sha256': hashlib.sha256(body[p0:cb + 1].encode()).hexdigest()[:16],
            'statement_head': re.sub(r'\s+', ' ', body[p0:cb + 1])[:100],
            'assumed': 'a non-capturing closure used as a Bevy system is the function with the same parameters and body'}
    return body[:p0] + name + turbofish + body[cb + 1:], text, info


def _desugar_in_params(sig):
    """`In(pat) : In<T>` parameter => `verif_in : In<T>` + `let In(pat) = verif_in;` (Rust's own desugaring)."""
    lets = []
    m = re.search(r'(?<![A-Za-z0-9_])In\s*\(', sig)
    if not m:
        return sig, lets
    close = rc.match_close(sig, m.end() - 1, '(', ')')
    rest = sig[close + 1:]
    if not re.match(r'\s*:\s*In\s*<', rest):
        return sig, lets
    pat = sig[m.start():close + 1]
    lets.append('        let %s = verif_in;' % pat)
    return sig[:m.start()] + 'verif_in' + sig[close + 1:], lets


def _insert_loop_invariants(body, loops, fname, loopvars=None):
    loopvars = loopvars or {}
    if not loops and not loopvars:
        return body
    # find loop heads at code level: `while`, `for`, `loop`
    heads, kinds = [], []
    rx = re.compile(r'(while|for|loop)\b')
    for j, d in rc.code_positions(body):
        if j > 0 and (body[j - 1].isalnum() or body[j - 1] == '_'):
            continue
        m = rx.match(body, j)
        if m:
            # the loop's '{' : first '{' at paren depth 0 after the head
            pd = 0
            ob = None
            for k, _ in rc.code_positions(body, m.end()):
                c = body[k]
                if c in '([':
                    pd += 1
                elif c in ')]':
                    pd -= 1
                elif c == '{' and pd == 0:
                    ob = k; break
            if ob is not None:
                heads.append(ob)
                kinds.append((m.group(1), j, ob))
    for ordinal, nm in loopvars.items():
        if ordinal < 1 or ordinal > len(kinds) or kinds[ordinal - 1][0] != 'for':
            raise CutError('fn %s: loopvar ordinal %d is not a for loop' % (fname, ordinal))
    # apply binder insertions from the back so that offsets stay valid
    for ordinal in sorted(loopvars, reverse=True):
        kw, j, ob = kinds[ordinal - 1]
        mm = re.compile(r'\bin\b').search(body, j, ob)
        # the `in` of the loop head: first ` in ` at paren depth 0 after the pattern
        pd = 0; pos = None
        for k, _ in rc.code_positions(body, j + 3, ob):
            c = body[k]
            if c in '([': pd += 1
            elif c in ')]': pd -= 1
            elif pd == 0 and body.startswith('in', k) and not (body[k - 1].isalnum() or body[k - 1] == '_') and not (body[k + 2].isalnum() or body[k + 2] == '_'):
                pos = k; break
        if pos is None:
            raise CutError('fn %s: `in` of for loop %d not found' % (fname, ordinal))
        ins = ' %s:' % loopvars[ordinal]
        body = body[:pos + 2] + ins + body[pos + 2:]
        heads = [h + len(ins) if h > pos else h for h in heads]
    out, last = [], 0
    for ordinal, text in sorted(loops.items()):
        if ordinal < 1 or ordinal > len(heads):
            raise CutError('fn %s: loop ordinal %d not found (%d loops)' % (fname, ordinal, len(heads)))
    for idx, ob in enumerate(heads, 1):
        if idx in loops:
            out.append(body[last:ob])
            out.append('\n' + loops[idx] + '\n')
            last = ob
    out.append(body[last:])
    return ''.join(out)


def expand(template_path, repo='/repo'):
    """Returns (generated_source, sidecar dict). Raises CutError on a lost anchor."""
    tpl = open(template_path).read().splitlines()
    cache = {}

    def src(f):
        if f not in cache:
            p = os.path.join(repo, f)
            if not os.path.exists(p):
                raise CutError('file %s missing' % f)
            cache[f] = open(p).read()
        return cache[f]

    out = []
    emitted_thunks = []
    auto_consts = {}
    side = {'template': os.path.basename(template_path), 'functions': [], 'types': [], 'dropped_statements': [],
            'dropped_derives': [], 'files': {}}
    i = 0
    while i < len(tpl):
        line = tpl[i]
        s = line.strip()
        if s.startswith('//@struct ') or s.startswith('//@enum '):
            kind, f, name = s[3:].split()[:3]
            opts = s[3:].split()[3:]
            attrs, text = rc.cut_type(src(f), kind, name)
            info = {'dropped_derives': []}
            fa = _filter_attrs(attrs, info)
            if 'noclone' in opts:
                # derive(Clone) is replaced by an explicit impl with an (assumed) spec in the template
                fa = re.sub(r'\bClone,\s*|,\s*Clone\b|\bClone\b', '', fa).replace('#[derive()]\n', '')
                info['dropped_derives'].append('Clone (explicit impl with assumed spec in the template)')
            for o_ in opts:
                # rrt:I,O  ->  #[verifier::reject_recursive_types(I)] ... (Verus needs it for type parameters it cannot show to be positive)
                if o_.startswith('rrt:'):
                    fa = ''.join('#[verifier::reject_recursive_types(%s)]\n' % x for x in o_[4:].split(',')) + fa
            if 'structural' in opts:
                # `==` on this type is structural equality (all fields compared): lets Verus relate exec `==` to spec `==`
                fa = re.sub(r'#\[derive\(([^)]*)\)\]', lambda mm: '#[derive(%s, Structural)]' % mm.group(1), fa, count=1)
            out.append(fa + _widen_type(text))
            side['types'].append({'file': f, 'name': name, 'line': rc.line_of(src(f), src(f).find(text))})
            side['dropped_derives'] += ['%s on %s' % (d, name) for d in info['dropped_derives']]
        elif s.startswith('//@impl '):
            _, f, anchor = s.split(None, 2)
            header, ob, close = rc.find_impl(src(f), anchor)
            out.append(header.rstrip() + '\n{')
        elif s.startswith('//@include '):
            inc = os.path.join(os.path.dirname(os.path.abspath(template_path)), s.split()[1])
            tpl[i + 1:i + 1] = open(inc).read().splitlines()
        elif s == '//@endimpl':
            out.append('}')
        elif s.startswith('//@fn ') or s.startswith('//@extern ') or s.startswith('//@fn? ') or s.startswith('//@extern? '):
            is_extern = s.startswith('//@extern')
            optional = s.split()[0].endswith('?')
            parts = s.split()
            f = parts[1]
            ret = None
            toks = parts[2:]
            if toks and toks[-1].startswith('ret='):
                ret = toks[-1][4:]
                toks = toks[:-1]
            name = toks[-1]
            anchor = ' '.join(toks[:-1])
            clauses, loops, loopvars, ghosts, dropstmts, c2e, loopbodies, atend, befores = [], {}, {}, [], [], [], {}, [], []
            lifts, lifted_out = [], []
            okmaps = []
            foreachs = []
            sigsubsts = []
            selfrename = None
            mapors, thunks = [], []
            mapdefaults = []
            loopends = {}
            loopafters = {}
            lec = []
            atreturn = []
            afters = []
            while i + 1 < len(tpl) and (tpl[i + 1].strip().startswith('//@|') or tpl[i + 1].strip().startswith('//@loop')
                                        or tpl[i + 1].strip().startswith('//@ghost') or tpl[i + 1].strip().startswith('//@dropstmt') or tpl[i + 1].strip().startswith('//@atend') or tpl[i + 1].strip().startswith('//@after') or tpl[i + 1].strip().startswith('//@atreturn') or tpl[i + 1].strip().startswith('//@before')
                                        or tpl[i + 1].strip().startswith('//@continue_to_else') or tpl[i + 1].strip().startswith('//@letelse_continue') or tpl[i + 1].strip().startswith('//@loopend') or tpl[i + 1].strip().startswith('//@loopafter') or tpl[i + 1].strip().startswith('//@lift') or tpl[i + 1].strip().startswith('//@sigsubst') or tpl[i + 1].strip().startswith('//@selfrename') or tpl[i + 1].strip().startswith('//@mapor') or tpl[i + 1].strip().startswith('//@thunk') or tpl[i + 1].strip().startswith('//@okmap') or tpl[i + 1].strip().startswith('//@foreach') or tpl[i + 1].strip().startswith('//@mapdefault')):
                i += 1
                t = tpl[i].strip()
                if t.startswith('//@|'):
                    clauses.append('        ' + t[4:].strip())
                elif t.startswith('//@mapor'):
                    mapors.append(t[len('//@mapor'):].strip())
                elif t.startswith('//@thunk'):
                    ct, nm, gen, tf, rt_ = [x.strip() for x in t[len('//@thunk'):].split(' | ', 4)]
                    lifts.append({'kind': 'thunk', 'closure': ct, 'name': nm, 'generics': gen, 'turbofish': tf, 'ret': rt_, 'clauses': [], 'pre': [], 'post': [], 'inv': []})
                elif t.startswith('//@selfrename'):
                    selfrename = t[len('//@selfrename'):].strip()
                elif t.startswith('//@liftsys'):
                    nd, nm, gen, tf = [x.strip() for x in t[len('//@liftsys'):].split('|', 3)]
                    lifts.append({'kind': 'sys', 'needle': nd, 'name': nm, 'generics': gen, 'turbofish': tf, 'clauses': [], 'pre': [], 'post': [], 'inv': []})
                elif t.startswith('//@sigsubst'):
                    a_, b_ = t[len('//@sigsubst'):].split('|', 1)
                    sigsubsts.append((a_.strip(), b_.strip()))
                elif t.startswith('//@mapdefault'):
                    nd, vs = t[len('//@mapdefault'):].split('|', 1)
                    mapdefaults.append((nd.strip(), [x.strip() for x in vs.split(',')]))
                elif t.startswith('//@okmap'):
                    okmaps.append(t.split(None, 1)[1].strip())
                elif t.startswith('//@foreach'):
                    foreachs.append((t.split(None, 1)[1].strip(), t.split(None, 1)[0].endswith('?')))
                elif t.startswith('//@liftdrainfilter'):
                    nd, nm, el, extra = [x.strip() for x in t[len('//@liftdrainfilter'):].split('|', 3)]
                    lifts.append({'kind': 'drainfilter', 'needle': nd, 'name': nm, 'elem': el, 'extra': extra, 'clauses': [], 'pre': [], 'post': [], 'inv': [], 'removed': [], 'kept': []})
                elif t.startswith('//@lift.removed|'):
                    lifts[-1]['removed'].append(t[len('//@lift.removed|'):].strip())
                elif t.startswith('//@lift.after|'):
                    lifts[-1].setdefault('after', []).append(t[len('//@lift.after|'):].strip())
                elif t.startswith('//@lift.kept|'):
                    lifts[-1]['kept'].append(t[len('//@lift.kept|'):].strip())
                elif t.startswith('//@lift.pre|'):
                    lifts[-1]['pre'].append(t[len('//@lift.pre|'):].strip())
                elif t.startswith('//@liftfind'):
                    nd, nm, el, ity, extra = [x.strip() for x in t[len('//@liftfind'):].split('|', 4)]
                    lifts.append({'kind': 'find', 'needle': nd, 'name': nm, 'elem': el, 'itype': ity, 'extra': extra, 'clauses': [], 'pre': [], 'post': [], 'pred': [], 'inv': []})
                elif t.startswith('//@liftposition'):
                    nd, nm, el, extra = [x.strip() for x in t[len('//@liftposition'):].split('|', 3)]
                    lifts.append({'kind': 'position', 'needle': nd, 'name': nm, 'elem': el, 'extra': extra, 'clauses': [], 'pre': [], 'post': [], 'pred': [], 'inv': []})
                elif t.startswith('//@lift.pred|'):
                    lifts[-1]['pred'].append('        ' + t[len('//@lift.pred|'):].strip())
                elif t.startswith('//@lift.found|'):
                    lifts[-1].setdefault('found', []).append(t[len('//@lift.found|'):].strip())
                elif t.startswith('//@lift.none|'):
                    lifts[-1].setdefault('none', []).append(t[len('//@lift.none|'):].strip())
                elif t.startswith('//@lift.inv|'):
                    lifts[-1]['inv'].append(t[len('//@lift.inv|'):].strip())
                elif t.startswith('//@liftscope'):
                    nd, nm, extra = [x.strip() for x in t[len('//@liftscope'):].split('|', 2)]
                    lifts.append({'kind': 'scope', 'needle': nd, 'name': nm, 'extra': extra, 'clauses': [], 'pre': [], 'post': [], 'inv': []})
                elif t.startswith('//@liftretain'):
                    nd, nm, cont, extra = [x.strip() for x in t[len('//@liftretain'):].split('|', 3)]
                    lifts.append({'needle': nd, 'name': nm, 'container': cont, 'extra': extra, 'clauses': [], 'pre': [], 'post': [], 'inv': []})
                elif t.startswith('//@lift.pre'):
                    lifts[-1]['pre'].append(t.split('|', 1)[1].strip())
                elif t.startswith('//@lift.post'):
                    lifts[-1]['post'].append(t.split('|', 1)[1].strip())
                elif t.startswith('//@lift|'):
                    lifts[-1]['clauses'].append('        ' + t[len('//@lift|'):].strip())
                elif t.startswith('//@before'):
                    nd, txt = t[len('//@before'):].split('|', 1)
                    befores.append((nd.strip(), txt.strip()))
                elif t.startswith('//@after'):
                    nd, txt = t[len('//@after'):].split('|', 1)
                    afters.append((nd.strip(), txt.strip()))
                elif t.startswith('//@atreturn'):
                    atreturn.append(t.split('|', 1)[1].strip())
                elif t.startswith('//@atend'):
                    atend.append('        ' + t.split('|', 1)[1].strip())
                elif t.startswith('//@ghost'):
                    ghosts.append('        ' + t.split('|', 1)[1].strip())
                elif t.startswith('//@loopafter'):
                    mm = re.match(r'//@loopafter\s+(\d+)\s*\|(.*)$', t)
                    loopafters.setdefault(int(mm.group(1)), []).append('            ' + mm.group(2).strip())
                elif t.startswith('//@loopend'):
                    mm = re.match(r'//@loopend\s+(\d+)\s*\|(.*)$', t)
                    loopends.setdefault(int(mm.group(1)), []).append('            ' + mm.group(2).strip())
                elif t.startswith('//@loopbody'):
                    mm = re.match(r'//@loopbody\s+(\d+)\s*\|(.*)$', t)
                    loopbodies.setdefault(int(mm.group(1)), []).append('            ' + mm.group(2).strip())
                elif t.startswith('//@letelse_continue'):
                    lec.append(int(t.split()[1]))
                elif t.startswith('//@continue_to_else'):
                    c2e.append(int(t.split()[1]))
                elif t.startswith('//@dropstmt'):
                    nd, rep = t[len('//@dropstmt'):].split('|', 1)
                    dropstmts.append((nd.strip(), rep.strip()))
                elif t.startswith('//@loopvar'):
                    _, o, nm = t.split()
                    loopvars[int(o)] = nm
                else:
                    mm = re.match(r'//@loop\s+(\d+)\s*\|(.*)$', t)
                    loops.setdefault(int(mm.group(1)), [])
                    loops[int(mm.group(1))].append('            ' + mm.group(2).strip())
            loops = {k: '\n'.join(v) for k, v in loops.items()}
            text = src(f)
            if anchor == '-':
                try:
                    fn = rc.cut_fn(text, name, 0, None, 0)
                except CutError:
                    if not optional:
                        raise
                    fn = None
            else:
                fn = None
                try:
                    impls = rc.find_impls(text, anchor)
                except CutError:
                    if not optional:
                        raise
                    impls = []
                for header, ob, close in impls:
                    try:
                        fn = rc.cut_fn(text, name, ob + 1, close, 0)
                        break
                    except CutError:
                        continue
                if fn is None and not optional:
                    raise CutError('fn %s not found in %s (%s)' % (name, anchor, f))
            if fn is None:
                side.setdefault('optional_absent', []).append(name)
                i += 1
                continue
            sig = fn['sig'].lstrip()
            if ' for ' in anchor:
                pass  # trait impl items carry no visibility
            elif not sig.startswith('pub fn'):
                sig = re.sub(r'^' + rc.VIS, 'pub ', sig, count=1)
            if selfrename:
                if '&mut self' not in sig:
                    raise CutError('fn %s: selfrename: no `&mut self` receiver' % name)
                sig = sig.replace('&mut self', 'verif_self: &mut %s' % selfrename, 1)
                side.setdefault('signature_substitutions', []).append({'fn': name, 'from': '&mut self (trait impl on a reference alias)', 'to': 'verif_self: &mut %s (free function)' % selfrename})
            for a_, b_ in sigsubsts:
                if a_ not in sig:
                    raise CutError('fn %s: sigsubst: `%s` not in the signature' % (name, a_))
                sig = sig.replace(a_, b_)
                side.setdefault('signature_substitutions', []).append({'fn': name, 'from': a_, 'to': b_})
            if ret:
                sig = _name_return(sig, ret)
            body, dropped = rc.drop_statements(fn['body'])
            if selfrename:
                code_ = set(j for j, d in rc.code_positions(body))
                out_, last_ = [], 0
                for m_ in re.finditer(r'(?<![A-Za-z0-9_])self(?![A-Za-z0-9_])', body):
                    if m_.start() in code_:
                        out_.append(body[last_:m_.start()]); out_.append('verif_self'); last_ = m_.end()
                out_.append(body[last_:])
                body = ''.join(out_)
            # rule 26: a closure parameter `_` is given a name (`|_|` -> `|_verif_unused|`); Verus rejects wildcard closure parameters, the meaning is the same
            n_wild = len(re.findall(r'\|\s*_\s*\|', body))
            if n_wild:
                body = re.sub(r'\|\s*_\s*\|', '|_verif_unused|', body)
                side.setdefault('normalized_statements', []).append({'fn': name, 'from': '|_| (x%d)' % n_wild, 'to': '|_verif_unused|'})
            # rule 24: file-level constants the body mentions are copied verbatim (once), unless the template defines them itself
            for cn in sorted(set(re.findall(r'(?<![A-Za-z0-9_:.])[A-Z][A-Z0-9_]{2,}(?![A-Za-z0-9_(!])', body))):
                if cn in auto_consts or re.search(r'\bconst\s+' + cn + r'\b', '\n'.join(tpl)):
                    continue
                mc = re.search(r'(?m)^(?:pub(?:\([^)]*\))?\s+)?const\s+' + cn + r'\s*:\s*([^=;]+)=\s*([^;]+);', text)
                if mc:
                    auto_consts[cn] = 'pub const %s: %s = %s;' % (cn, mc.group(1).strip(), mc.group(2).strip())
                    side.setdefault('copied_constants', []).append({'fn': name, 'const': auto_consts[cn], 'file': f})
            for needle, rep in dropstmts:
                body, what = _replace_statement(body, needle, rep, name)
                side.setdefault('replaced_statements', []).append({'fn': name, 'dropped_sha256': hashlib.sha256(what.encode()).hexdigest()[:16], 'dropped_head': re.sub(r'\s+', ' ', what)[:120], 'replacement': rep})
            for nd in mapors:
                body, minfos = _mapor(body, nd, name)
                side.setdefault('normalized_statements', []).extend(minfos)
            for nd, vs in mapdefaults:
                body, minfos = _mapdefault(body, nd, vs, name)
                side.setdefault('normalized_statements', []).extend(minfos)
            for nd in okmaps:
                body, oinfo = _okmap(body, nd, name)
                if oinfo:
                    side.setdefault('normalized_statements', []).append(oinfo)
                else:
                    side.setdefault('skipped_normalizations', []).append('%s: okmap %s (statement not present in this form)' % (name, nd))
            for nd, optional in foreachs:
                body, oinfo = _foreach(body, nd, name)
                if oinfo:
                    side.setdefault('normalized_statements', []).append(oinfo)
                elif optional:
                    # the statement is not there in this form (e.g. rewritten with `extend`): the body is verified AS IT IS against the same contract;
                    # the annotations of the loop this rule would have generated go with it (the function must have no other loop)
                    if _loop_bodies(body):
                        raise CutError('fn %s: foreach?: statement starting with %r absent and the body has loops of its own (unsupported construct)' % (name, nd))
                    loops, loopvars, loopbodies, loopafters, loopends = {}, {}, {}, {}, {}
                    befores = [(n_, t_) for n_, t_ in befores if not n_.startswith('for ')]
                    side.setdefault('skipped_normalizations', []).append('%s: foreach %s (statement not present in this form; loop annotations dropped, body verified as written)' % (name, nd))
                else:
                    raise CutError('fn %s: foreach: no statement `ITER.for_each(|p| EXPR);` starting with %r (unsupported construct)' % (name, nd))
            for ordinal in sorted(lec, reverse=True):
                body = _letelse_continue(body, ordinal, name)
                side.setdefault('normalized_loops', []).append('%s: loop %d: `let P = E else { continue; }; REST` -> `if let P = E { REST }`' % (name, ordinal))
            for ordinal in c2e:
                body = _continue_to_else(body, ordinal, name)
                side.setdefault('normalized_loops', []).append('%s: loop %d: `if C { continue; } REST` -> `if C {} else { REST }`' % (name, ordinal))
            for ordinal in sorted(loopafters, reverse=True):
                lb = _loop_bodies(body)
                if ordinal < 1 or ordinal > len(lb):
                    raise CutError('fn %s: loopafter ordinal %d not found' % (name, ordinal))
                cb_ = lb[ordinal - 1][2]
                body = body[:cb_ + 1] + '\n' + '\n'.join(loopafters[ordinal]) + body[cb_ + 1:]
            for ordinal in sorted(loopends, reverse=True):
                lb = _loop_bodies(body)
                if ordinal < 1 or ordinal > len(lb):
                    raise CutError('fn %s: loopend ordinal %d not found' % (name, ordinal))
                cb_ = lb[ordinal - 1][2]
                body = body[:cb_] + '\n'.join(loopends[ordinal]) + '\n        ' + body[cb_:]
            for ordinal in sorted(loopbodies, reverse=True):
                lb = _loop_bodies(body)
                if ordinal < 1 or ordinal > len(lb):
                    raise CutError('fn %s: loopbody ordinal %d not found' % (name, ordinal))
                ob = lb[ordinal - 1][1]
                body = body[:ob + 1] + '\n' + '\n'.join(loopbodies[ordinal]) + body[ob + 1:]
            body = _insert_loop_invariants(body, loops, name, loopvars)
            for lf in lifts:
                if lf.get('kind') == 'sys':
                    body, text_, linfo = _lift_sys(body, lf['needle'], lf['name'], lf['generics'], lf['turbofish'], lf['clauses'], name)
                    lifted_out.append(text_)
                    linfo['clauses'] = [c.strip() for c in lf['clauses']]
                    linfo['file'] = f
                    side.setdefault('lifted_closures', []).append(linfo)
                    continue
                if lf.get('kind') == 'find':
                    body, texts, linfo = _lift_find(body, sig, lf['needle'], lf['name'], lf['elem'], lf['itype'], lf['extra'], lf, name, anchor != '-')
                    lifted_out += texts
                    linfo['clauses'] = [c.strip() for c in lf['clauses'] + lf['pred']]
                    linfo['file'] = f
                    side.setdefault('lifted_closures', []).append(linfo)
                    continue
                if lf.get('kind') == 'drainfilter':
                    body, texts, linfo = _lift_drain_filter(body, sig, lf['needle'], lf['name'], lf['elem'], lf['extra'], lf, name, anchor != '-')
                    lifted_out += texts
                    linfo['clauses'] = [c.strip() for c in lf['clauses']]
                    linfo['file'] = f
                    side.setdefault('lifted_closures', []).append(linfo)
                    continue
                if lf.get('kind') == 'thunk':
                    body, n_ = _thunk(body, lf['closure'], ('Self::' if anchor != '-' else '') + lf['name'], lf['turbofish'], name)
                    expr_ = lf['closure'].strip()[2:].strip()
                    if not any(('fn %s%s()' % (lf['name'], lf['generics'])) in x for x in emitted_thunks):
                        emitted_thunks.append('fn %s%s()' % (lf['name'], lf['generics']))
                        lifted_out.append('    pub fn %s%s() -> (r: %s)\n%s\n    { %s }' % (lf['name'], lf['generics'], lf['ret'], '\n'.join(lf['clauses']), expr_))
                    side.setdefault('lifted_closures', []).append({'fn': name, 'lifted': lf['name'], 'captures': [], 'closure_sha256': hashlib.sha256(lf['closure'].encode()).hexdigest()[:16],
                        'statement_head': lf['closure'], 'clauses': [c.strip() for c in lf['clauses']], 'file': f,
                        'assumed': 'an argument-less closure without captures is the function item with the same body (%d occurrence(s))' % n_})
                    continue
                if lf.get('kind') == 'position':
                    body, texts, linfo = _lift_position(body, sig, lf['needle'], lf['name'], lf['elem'], lf['extra'], lf['clauses'], lf['pred'], lf['inv'], name, anchor != '-', lf.get('found', []), lf.get('none', []))
                    lifted_out += texts
                    linfo['clauses'] = [c.strip() for c in lf['clauses'] + lf['pred']]
                    linfo['file'] = f
                    side.setdefault('lifted_closures', []).append(linfo)
                    continue
                if lf.get('kind') == 'scope':
                    body, lh, lb, linfo = _lift_scope(body, sig, lf['needle'], lf['name'], lf['extra'], name)
                    found = [(lh, lb, linfo)]
                else:
                    # every statement `RECV.retain(..)` that starts with the needle is lifted, each under the SAME contract
                    found, pos, k = [], 0, 0
                    while True:
                        nm_k = lf['name'] if k == 0 else '%s_%d' % (lf['name'], k + 1)
                        r = _lift_retain(body, sig, lf['needle'], nm_k, lf['container'], lf['extra'], lf['pre'], lf['post'], name, lf.get('inv', []), pos)
                        if r is None:
                            break
                        body, lh, lb, linfo, pos = r
                        found.append((lh, lb, linfo)); k += 1
                    if not found:
                        raise CutError('fn %s: retain statement not found: %s' % (name, lf['needle']))
                for lh, lb, linfo in found:
                    lifted_out.append('    #[verifier::exec_allows_no_decreases_clause]\n    ' + lh + '\n' + '\n'.join(lf['clauses']) + '\n    ' + lb)
                    linfo['clauses'] = [c.strip() for c in lf['clauses']]
                    linfo['file'] = f
                    side.setdefault('lifted_closures', []).append(linfo)
            for needle, txt in befores:
                # `#k needle`: the k-th occurrence (1-based) of the needle at statement level; default the first
                occ = 1
                mo = re.match(r'#(\d+)\s+(.*)$', needle)
                if mo:
                    occ, needle = int(mo.group(1)), mo.group(2)
                rxn = re.compile(r'\s*'.join(re.escape(tok) for tok in needle.split()))
                pos, seen_ = None, 0
                for j, d in rc.code_positions(body):
                    if rxn.match(body, j) and (j == 0 or not (body[j - 1].isalnum() or body[j - 1] == '_')):
                        seen_ += 1
                        if seen_ == occ:
                            pos = j; break
                if pos is None:
                    raise CutError('fn %s: statement for //@before not found: %s' % (name, needle))
                body = body[:pos] + txt + '\n        ' + body[pos:]
            for needle, txt in afters:
                rxn = re.compile(r'\s*'.join(re.escape(tok) for tok in needle.split()))
                pos = None
                for j, d in rc.code_positions(body):
                    if rxn.match(body, j) and (j == 0 or not (body[j - 1].isalnum() or body[j - 1] == '_')):
                        pos = j; break
                if pos is None:
                    raise CutError('fn %s: statement for //@after not found: %s' % (name, needle))
                depth, end = 0, None
                for k, d in rc.code_positions(body, pos):
                    c = body[k]
                    if c in '([{': depth += 1
                    elif c in ')]}': depth -= 1
                    elif c == ';' and depth == 0:
                        end = k; break
                if end is None:
                    raise CutError('fn %s: end of statement for //@after not found: %s' % (name, needle))
                body = body[:end + 1] + '\n        ' + txt + body[end + 1:]
            if atreturn:
                txt_ = ' '.join(atreturn)
                pos_list = []
                for j, d in rc.code_positions(body):
                    if body.startswith('return', j) and (j == 0 or not (body[j - 1].isalnum() or body[j - 1] == '_')) and not (body[j + 6].isalnum() or body[j + 6] == '_'):
                        k = j - 1
                        while k >= 0 and body[k].isspace(): k -= 1
                        if k >= 0 and body[k] not in '{;}':
                            raise CutError('fn %s: atreturn: a `return` in expression position' % name)
                        pos_list.append(j)
                for j in reversed(pos_list):
                    body = body[:j] + txt_ + ' ' + body[j:]
                cb_ = body.rindex('}')
                body = body[:cb_] + '    ' + txt_ + '\n    ' + body[cb_:]
            if atend:
                cb_ = body.rindex('}')
                body = body[:cb_] + '\n'.join(atend) + '\n    ' + body[cb_:]
            sig, in_lets = _desugar_in_params(sig)
            if in_lets or ghosts:
                ob = body.index('{')
                body = body[:ob + 1] + '\n' + '\n'.join(in_lets + ghosts) + body[ob + 1:]
            if is_extern:
                body = '{ unimplemented!() }'
                out.append('    #[verifier::external_body]')
            out.append('    ' + sig.rstrip() + '\n' + '\n'.join(clauses) + '\n    ' + body)
            out += lifted_out
            a, b = fn['span']
            side['functions'].append({
                'file': f, 'anchor': anchor, 'fn': name,
                'lines': [rc.line_of(text, a), rc.line_of(text, b)],
                'body_sha256': hashlib.sha256(fn['body'].encode()).hexdigest()[:16],
                'clauses': [c.strip() for c in clauses],
                'assumed': is_extern,
            })
            for d in dropped:
                side['dropped_statements'].append('%s::%s: %s' % (anchor, name, d))
        else:
            out.append(line)
        i += 1
    for f, text in cache.items():
        side['files'][f] = hashlib.sha256(text.encode()).hexdigest()
    gen = '\n'.join(out) + '\n'
    if auto_consts:
        mv = re.search(r'(?m)^verus!\s*\{\s*$', gen)
        if mv:
            gen = gen[:mv.end()] + '\n// constants copied verbatim from the repo (extraction rule 24)\n' + '\n'.join(auto_consts.values()) + gen[mv.end():]
    return gen, side


if __name__ == '__main__':
    try:
        g, s = expand(sys.argv[1])
    except CutError as e:
        print('UNDECIDED lost-anchor:', e)
        sys.exit(2)
    sys.stdout.write(g)
