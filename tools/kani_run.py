"""Kani tier: parse harness annotations, run cargo kani on the staged crate, classify results, playback."""
import json
import os
import re
import shlex
import subprocess
import time

VERIF = os.path.dirname(os.path.dirname(os.path.abspath(__file__)))
ENV = dict(os.environ, CARGO_NET_OFFLINE='true')
ENV.pop('RUSTUP_TOOLCHAIN', None)

ANNOT = re.compile(r'^\s*//#\s*(.*)$')
FN = re.compile(r'fn\s+([a-z0-9_]+)\s*\(')


def parse_annotations():
    """Scan contracts/kani/*.rs for `//# key=value ...` lines preceding harness fns."""
    out = {}
    d = os.path.join(VERIF, 'contracts', 'kani')
    for f in sorted(os.listdir(d)):
        if not f.endswith('.rs'):
            continue
        lines = open(os.path.join(d, f)).read().splitlines()
        pending = None
        for ln in lines:
            m = ANNOT.match(ln)
            if m:
                kv = {}
                for tok in shlex.split(m.group(1)):
                    if '=' in tok:
                        k, v = tok.split('=', 1)
                        kv[k] = v
                pending = kv
                continue
            if pending is not None and ('#[kani::proof' in ln or pending.get('_seen_proof')):
                pending['_seen_proof'] = True
                mm = FN.search(ln)
                if mm:
                    pending.pop('_seen_proof', None)
                    pending['harness'] = mm.group(1)
                    pending['file'] = f
                    pending['props'] = pending.get('props', '').split(',')
                    pending.setdefault('tier', 'quick')
                    pending.setdefault('strength', 'bounded')
                    out[pending['id']] = pending
                    pending = None
    names = sorted(v['harness'] for v in out.values())
    clash = [(x, y) for x in names for y in names if x != y and x in y]
    assert not clash, 'harness names must not contain one another (cargo kani --harness matches substrings): %s' % clash
    return out


BOUND_PATTERNS = ['unwinding assertion', 'capacity exceeded', 'recursion unwinding', 'is not currently supported by Kani', 'unsupported construct']


def classify_failed_checks(checks):
    """Split failed checks into (contract/real failures, bound failures)."""
    real, bound = [], []
    for c in checks:
        st = c.get('status')
        if st in ('Success', 'Unreachable', 'Satisfied', 'Covered', 'Uncovered', 'Unsatisfiable'):
            continue
        desc = c.get('description', '')
        item = {'status': st, 'description': desc, 'function': c.get('function'),
                'location': '%s:%s' % (c.get('location', {}).get('file'), c.get('location', {}).get('line'))}
        if any(p in desc for p in BOUND_PATTERNS):
            bound.append(item)
        else:
            real.append(item)
    return real, bound


def run_kani(stage_dir, harnesses, timeout_s, jobs=16, extra=None, log_path=None):
    """harnesses: list of harness fn names. Returns dict name -> result dict."""
    if not harnesses:
        return {}, ''
    out_json = os.path.join(stage_dir, 'kani_out.json')
    if os.path.exists(out_json):
        os.remove(out_json)
    cmd = ['cargo', 'kani', '-Z', 'unstable-options', '-Z', 'function-contracts', '-Z', 'stubbing',
           '--output-format', 'terse', '--export-json', out_json,
           '--harness-timeout', '%ds' % timeout_s, '-j', str(jobs)]
    for h in harnesses:
        cmd += ['--harness', h]
    if extra:
        cmd += extra
    t0 = time.time()
    p = subprocess.run(cmd, cwd=stage_dir, env=ENV, stdout=subprocess.PIPE, stderr=subprocess.STDOUT, text=True,
                       timeout=timeout_s * max(1, (len(harnesses) + jobs - 1) // jobs) + 900)
    wall = time.time() - t0
    log = p.stdout
    if log_path:
        open(log_path, 'w').write(log)
    res = {}
    if not os.path.exists(out_json):
        return None, log   # compile error or crash
    d = json.load(open(out_json))
    stats = {x['harness_id']: (x.get('cbmc_stats') or {}) for x in d.get('cbmc', [])}
    errs = {x['harness_id']: x for x in d.get('error_details', [])}
    for r in d.get('verification_results', {}).get('results', []):
        hid = r['harness_id']
        short = hid.split('::')[-1]
        real, bound = classify_failed_checks(r.get('checks', []))
        res[short] = {
            'harness_id': hid,
            'status': r.get('status'),
            'duration_ms': r.get('duration_ms'),
            'n_checks': len(r.get('checks', [])),
            'failed': real, 'bound_failed': bound,
            'solver_s': stats.get(hid, {}).get('runtime_solver_s'),
            'symex_s': stats.get(hid, {}).get('runtime_symex_s'),
            'error': errs.get(hid, {}),
        }
    return res, log


PLAYBACK_RX = re.compile(r'Concrete playback unit test for `([^`]+)`:\s*```\n(.*?)```', re.S)


def concrete_playback(stage_dir, stage_info, failing, timeout_s, log_dir):
    """failing: dict short_name -> contract file (basename). Returns dict name -> {'reproduced': bool, 'output': str, 'test': str}."""
    out = {n: {'reproduced': None, 'output': '', 'test': ''} for n in failing}
    cmd = ['cargo', 'kani', '-Z', 'unstable-options', '-Z', 'function-contracts', '-Z', 'stubbing', '-Z', 'concrete-playback',
           '--concrete-playback=print', '--output-format', 'terse', '--harness-timeout', '%ds' % timeout_s, '-j', '16']
    for h in failing:
        cmd += ['--harness', h]
    p = subprocess.run(cmd, cwd=stage_dir, env=ENV, stdout=subprocess.PIPE, stderr=subprocess.STDOUT, text=True)
    open(os.path.join(log_dir, 'playback_gen.log'), 'w').write(p.stdout)
    tests = {}
    for m in PLAYBACK_RX.finditer(p.stdout):
        full, code = m.group(1), m.group(2)
        short = full.split('::')[-1]
        tests.setdefault(short, code)   # first failing check is enough
    by_file = {}
    for short, code in tests.items():
        if short in failing:
            out[short]['test'] = code
            by_file.setdefault(failing[short], []).append(code)
    if not tests:
        return out
    for f, codes in by_file.items():
        with open(os.path.join(stage_dir, 'verif_contracts', f), 'a') as fh:
            fh.write('\n#[cfg(test)] mod verif_playback { use super::*;\n' + '\n'.join(codes) + '\n}\n')
    env = dict(ENV, RUST_BACKTRACE='0')
    p = subprocess.run(['cargo', 'kani', 'playback', '-Z', 'concrete-playback', '--', 'kani_concrete_playback_',
                        '--nocapture', '--test-threads=1'],
                       cwd=stage_dir, env=env, stdout=subprocess.PIPE, stderr=subprocess.STDOUT, text=True)
    txt = p.stdout
    open(os.path.join(log_dir, 'playback_run.log'), 'w').write(txt)
    for short in tests:
        if short not in failing:
            continue
        mm = re.search(r'fn (kani_concrete_playback_[a-z0-9_]+)\(', tests[short])
        if not mm:
            continue
        tname = mm.group(1)
        # section of the log belonging to this test (single-threaded run: from its "test ..." line to the next one)
        m0 = re.search(r'^test \S*%s \.\.\. ' % tname, txt, re.M)
        seg = ''
        if m0:
            m1 = re.search(r'^test \S+ \.\.\. ', txt[m0.end():], re.M)
            seg = txt[m0.start(): m0.end() + (m1.start() if m1 else len(txt))]
        keep = [l for l in seg.splitlines() if 'REPLAY-' in l or 'panicked at' in l or l.startswith('test ') or 'assert' in l.lower()]
        out[short]['output'] = '\n'.join(keep)[-4000:]
        verdict = re.search(r'(ok|FAILED)\s*$', seg.strip().splitlines()[-1]) if seg.strip() else None
        res_line = re.search(r'%s \.\.\. (ok|FAILED)' % tname, txt)
        # with --nocapture the verdict is printed after the test's own output
        vm = re.search(r'^test \S*%s \.\.\. (?:.*\n)*?.*?(ok|FAILED)$' % tname, txt, re.M)
        if 'panicked at' in seg:
            out[short]['reproduced'] = True
        elif seg:
            out[short]['reproduced'] = False
    return out
