"""Maintenance: record the obligation names each Verus unit generates on the unchanged tree (vacuity guard)."""
import json, os, sys, subprocess, tempfile
sys.path.insert(0, os.path.dirname(os.path.abspath(__file__)))
import extract, registry
VERIF = os.path.dirname(os.path.dirname(os.path.abspath(__file__)))
out = {}
for unit, u in registry.VERUS_UNITS.items():
    gen, side = extract.expand(os.path.join(VERIF, 'contracts', 'verus', u['template']))
    d = tempfile.mkdtemp()
    p = os.path.join(d, unit + '.rs'); open(p, 'w').write(gen)
    r = subprocess.run(['verus', p, '--output-json', '--time', '--triggers-mode', 'silent'], stdout=subprocess.PIPE, stderr=subprocess.PIPE, text=True)
    j = json.loads(r.stdout)
    names = []
    for m in j['times-ms']['smt']['smt-run-module-times']:
        for f in m['function-breakdown']:
            assert f['success'], f
            names.append(f['function'].split('::', 1)[1])
    out[unit] = sorted(names)
    print(unit, len(names))
json.dump(out, open(os.path.join(VERIF, 'contracts', 'verus', 'expect.json'), 'w'), indent=1)
