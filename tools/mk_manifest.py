#!/usr/bin/env python3
"""Regenerate MANIFEST.json and claims.json from tools/registry.py (single source of the claims)."""
import json, os, sys
sys.path.insert(0, os.path.dirname(os.path.abspath(__file__)))
import registry
VERIF = os.path.dirname(os.path.dirname(os.path.abspath(__file__)))
ids = [json.loads(l)['id'] for l in open(os.path.join(VERIF, 'properties.jsonl'))]
checks, na, claims = [], [], {}
for pid in ids:
    c = registry.PROPS.get(pid)
    if c:
        checks.append({
            'property_id': pid,
            'quick_cmd': './check %s --tier quick' % pid,
            'thorough_cmd': './check %s --tier thorough' % pid,
            'evidence_file': 'evidence/%s.json' % pid,
            'replay_cmd_template': './check %s --replay {path}' % pid,
            'engine': 'contracts',
            'level_claimed': {'category': c['category'], 'text': c['text'], 'design_ref': c['design_ref']},
            'level_note': c['note'],
            'technique': registry.TECH,
        })
        claims[pid] = {'level': c['category'], 'explanation': c['explanation']}
    else:
        na.append({'property_id': pid, 'reason': registry.NA.get(pid) or registry.PENDING.get(pid)})
m = {
    'version': 1,
    'setup_cmd': './setup.sh',
    'hooks': {
        'guard': 'none',
        'enable': 'no hooks in /repo: contracts are attached to a verbatim extraction (Verus) and to a byte-for-byte staged copy of /repo/src with one appended `#[cfg(kani)] #[path=..] pub(crate) mod verif_contracts;` line per file (Kani); nothing to enable',
        'baseline_off_cmd': 'cd /repo && cargo test --workspace --no-fail-fast --offline',
        'source_commits': [],
        'add_only': True,
    },
    'engines': [{'name': 'contracts', 'path': 'check', 'serves_properties': sorted(claims),
                 'kind_free_text': 'Verus 0.2026.09.13 (single-file, functions re-extracted verbatim from /repo/src on every run) + Kani 0.68/CBMC contract harnesses on the staged real crate compiled against the assumed Bevy of /verif/env'}],
    'checks': checks,
    'notes': 'exit 0 = every obligation discharged; exit 1 = VIOLATION (named obligation; Kani counterexamples are replayed natively on the staged real code first); exit 2 = UNDECIDED (lost anchor, unsupported construct, timeout, environment mismatch) - never a violation. Repaired defects: known_findings.json "fixed". See DESIGN.md.',
    'not_applicable': na,
}
json.dump(m, open(os.path.join(VERIF, 'MANIFEST.json'), 'w'), indent=1)
json.dump(claims, open(os.path.join(VERIF, 'claims.json'), 'w'), indent=1)
print('claimed:', sorted(claims), 'n/a:', [x['property_id'] for x in na])
