#!/usr/bin/env python3
"""Render seeded/RESULTS.json (+ harmless/RESULTS.json) as the markdown table of DESIGN.md 9.7 (between the markers)."""
import json, os, re, sys
VERIF = os.path.dirname(os.path.dirname(os.path.abspath(__file__)))
res = json.load(open(os.path.join(VERIF, 'seeded', 'RESULTS.json')))
rows = []
tally = {'CAUGHT': 0, 'missed': 0, 'undecided (exit 2)': 0, 'not checked': 0}
for s in sorted(d for d in os.listdir(os.path.join(VERIF, 'seeded')) if re.match(r'C\d+-[a-h]$', d)):
    meta = json.load(open(os.path.join(VERIF, 'seeded', s, 'meta.json')))
    what = (meta.get('summary') or '')
    what = re.sub(r'\s+', ' ', what)[:170]
    r = res.get(s, {})
    if 'note' in r:
        verdict, by = 'not checked', r['note']
    else:
        caught = []
        und = []
        for p, v in sorted(r.items()):
            if not isinstance(v, dict): continue
            if v.get('exit') == 1:
                obs = sorted(set(re.search(r'obligation=(\S+)', x).group(1) for x in v.get('violations', []) if 'obligation=' in x))
                caught.append('%s: %s' % (p, ', '.join(obs[:3]) + (' …' if len(obs) > 3 else '')))
            elif v.get('exit') == 2:
                und.append('%s: %s' % (p, (v.get('undecided') or ['undecided'])[0][10:120]))
            else:
                und.append('%s: passes' % p)
        verdict = 'CAUGHT' if caught else ('undecided (exit 2)' if any('passes' not in u for u in und) else 'missed')
        by = '; '.join(caught) if caught else '; '.join(und)
    tally[verdict] = tally.get(verdict, 0) + 1
    rows.append('| %s | %s | %s | %s |' % (s, what.replace('|', '/'), verdict, by.replace('|', '/')))
table = '| seed | change (as described by its author) | result | by / why not |\n|---|---|---|---|\n' + '\n'.join(rows)
hp = os.path.join(VERIF, 'seeded', 'harmless', 'RESULTS.json')
if os.path.exists(hp):
    h = json.load(open(hp))
    hr = []
    for k, v in sorted(h.items()):
        note = open(os.path.join(VERIF, 'seeded', 'harmless', k, 'note.txt')).read().strip()
        hr.append('| %s | %s | %s |' % (k, note[:160], ', '.join('%s exit %s' % (p, x.get('exit')) for p, x in sorted(v.items()) if isinstance(x, dict))))
    table += '\n\nHarmless changes (must NOT alarm):\n\n| change | why harmless | checks |\n|---|---|---|\n' + '\n'.join(hr)
p = os.path.join(VERIF, 'DESIGN.md')
s = open(p).read()
a, b = '<!-- SEED-TABLE-BEGIN -->', '<!-- SEED-TABLE-END -->'
if a in s:
    s = s[:s.index(a) + len(a)] + '\n' + table + '\n' + s[s.index(b):]
    open(p, 'w').write(s)
ta, tb = '<!-- SEED-TALLY-BEGIN -->', '<!-- SEED-TALLY-END -->'
s = open(p).read()
line = '%d seeded changes: %d caught (exit 1 with a named obligation), %d missed (every related check passes), %d undecided (exit 2: lost anchor / construct outside the subset), %d not checked.' % (len(rows), tally['CAUGHT'], tally['missed'], tally['undecided (exit 2)'], tally['not checked'])
if ta in s:
    s = s[:s.index(ta) + len(ta)] + '\n' + line + '\n' + s[s.index(tb):]
    open(p, 'w').write(s)
print(table)
print(line)
