"""Which obligations decide which property (single source for ./check, MANIFEST generation and evidence)."""
import re

# ---------------------------------------------------------------------------------------------------------------
# Verus units: template -> [(function-name regex, [properties])]   (function names as Verus reports them,
# without the crate prefix).  A function may serve several properties.
# ---------------------------------------------------------------------------------------------------------------
VERUS_UNITS = {
    'queue': {
        'template': 'queue.rs.tpl',
        'owners': [(r'.*', ['C12'])],
        'negctl': [  # (literal old, literal new, function expected to FAIL) applied to the generated file
            ('ensures final(self).commands@ == old(self).commands@ + new@,',
             'ensures final(self).commands@ == new@ + old(self).commands@,', 'CobwebCommandQueue::append'),
        ],
    },
    'counter': {
        'template': 'counter.rs.tpl',
        'owners': [(r'.*', ['C05'])],
        'negctl': [
            ('ensures b == (self.count == 0),', 'ensures b == (self.count == 1),', 'DataEntityCounter::is_done'),
        ],
    },
    'trackers': {
        'template': 'trackers.rs.tpl',
        'owners': [
            (r'.*::prepare$', ['C03', 'C12']),
            (r'.*::end$', ['C03', 'C04']),
            (r'.*::(is_reacting|data_entity|system|source|reaction_type)$', ['C03', 'C04']),
            (r'.*::default$', ['C03', 'C04']),
            (r'lemma_.*', ['C03', 'C12']),
        ],
        'negctl': [
            ('ensures !final(self).currently_reacting,\n        final(self).reactor_handle is None,',
             'ensures !final(self).currently_reacting,\n        final(self).reactor_handle is Some,', 'DespawnAccessTracker::end'),
        ],
    },
    'handles': {
        'template': 'handles.rs.tpl',
        'owners': [
            (r'ReactorHandle::sys_command$', ['C01', 'C06', 'C07']),
            (r'ReactorType::get_entity$', ['C16', 'C06']),
            (r'ReactorMode::prepare$', ['C07', 'C16']),
            (r'SystemCommandStorage::.*', ['C13']),
            (r'check_take_insert_roundtrip$', ['C13']),
            (r'SystemEventData::.*', ['C04']),
            (r'check_take_at_most_once$', ['C04']),
        ],
        'negctl': [
            ('ensures r == old(self).callback, final(self).callback is None,',
             'ensures r == old(self).callback, final(self).callback is Some,', 'SystemCommandStorage::take'),
        ],
    },
    'readers': {
        'template': 'readers.rs.tpl',
        'owners': [
            (r'(InsertionEvent|MutationEvent|RemovalEvent|DespawnEvent)::(get|is_empty)$', ['C03', 'C04']),
            (r'ReactComponentId::id$', ['C03']),
            (r'check_readers_exclusive$', ['C03', 'C04']),
        ],
        'negctl': [
            ('ensures r is Ok <==> (self.tracker.value.currently_reacting && self.tracker.value.reaction_type == EntityReactionType::Insertion(self.component_id.value.id)),',
             'ensures r is Ok <==> (self.tracker.value.currently_reacting && self.tracker.value.reaction_type == EntityReactionType::Mutation(self.component_id.value.id)),', 'InsertionEvent::get'),
            ('ensures r is Ok <==> self.tracker.value.currently_reacting,', 'ensures r is Ok,', 'DespawnEvent::get'),
        ],
    },
    'cache': {
        'template': 'cache.rs.tpl',
        'owners': [
            (r'ReactCache::register_(insertion|mutation|removal|any_entity_event|resource_mutation|broadcast)_reactor$', ['C01', 'C07']),
            (r'ReactCache::register_despawn_reactor$', ['C01', 'C07', 'C08']),
            (r'ReactCache::track_removals$', ['C08']),
            (r'ReactCache::schedule_resource_mutation_reaction$', ['C01']),
            (r'ReactCache::schedule_broadcast_reaction$', ['C01', 'C05']),
            (r'ComponentReactors::(default|is_empty)$', ['C01', 'C06']),
            (r'ReactorHandle::sys_command$', ['C01']),
        ],
        'negctl': [
            ('else { old(commands).log().push(Queued::SpawnData { entity: d, readers: tab.len() as usize })',
             'else { old(commands).log().push(Queued::SpawnData { entity: d, readers: (tab.len() + 1) as usize })', 'ReactCache::schedule_broadcast_reaction'),
            ('ensures tab_mut(*final(self), type_id_spec::<C>()) == tab_mut(*old(self), type_id_spec::<C>()).push(handle),',
             'ensures tab_ins(*final(self), type_id_spec::<C>()) == tab_ins(*old(self), type_id_spec::<C>()).push(handle),', 'ReactCache::register_mutation_reactor'),
        ],
    },
    'commands': {
        'template': 'commands.rs.tpl',
        'owners': [
            (r'try_cleanup_data_entity$', ['C05', 'C18']),
            (r'(start|end)_system_event$', ['C03', 'C04', 'C05']),
            (r'(start|end)_entity_reaction$', ['C03', 'C04']),
            (r'(start|end)_despawn_reaction$', ['C03', 'C04', 'C07']),
            (r'(start|end)_entity_event$', ['C03', 'C04', 'C05']),
            (r'(start|end)_broadcast_event$', ['C03', 'C04', 'C05']),
        ],
        'negctl': [
            ('cleanup_spec(old(world), final(world), old(world).event().data_entity),', 'ecs_same(old(world), final(world)),', 'end_entity_event'),
        ],
    },
    'lemmas': {
        'template': 'lemmas.rs.tpl',
        'owners': [
            (r'lemma_(first_idx|count_cons|count_remove|register|revoke|single_registration_revoked|history)$', ['C01', 'C06']),
            (r'lemma_refcount_exact$', ['C07', 'C10']),
        ],
        'negctl': [
            ('else if st.0 == 1 { (0, st.1 + 1) }', 'else if st.0 == 1 { (0, st.1 + 2) }', 'lemma_refcount_exact'),
        ],
    },
}


def verus_units_for(prop):
    out = {}
    for unit, u in VERUS_UNITS.items():
        pats = [rx for rx, props in u['owners'] if prop in props]
        if pats:
            out[unit] = pats
    return out


def verus_owned(unit, prop, fname):
    for rx, props in VERUS_UNITS[unit]['owners']:
        if prop in props and re.match(rx + r'\Z', fname):
            return True
    return False


# ---------------------------------------------------------------------------------------------------------------
# Per-property claim text (level, notes).  Kani harnesses are attached through the `//# ... props=` annotations in
# contracts/kani/*.rs (tools/kani_run.parse_annotations).
# ---------------------------------------------------------------------------------------------------------------

TECH = 'contract-based deductive verification of the real code: Verus contracts on verbatim-extracted functions + Kani contract harnesses on the staged real crate'

NA = {
    'C02': 'postcondition of the recursive syscommand_runner over arbitrary trees: outside Verus\' subset (closure capturing &mut World passed to VecDeque::retain, Box<dyn FnMut>, generic resources); Kani cannot compile real Bevy (compiler ICE) and did not finish a 3-run tree on the stubbed crate in 20 min; no inductive contract is expressible for the non-root calls (would need modifies over a World)',
    'C09': 'an order relation over all pairs of runs of a tree produced by the recursive runner plus Bevy\'s per-command flush: same reach problem as C02, and the oracle would be a reference interpreter of the expected order (a model: different family). The order-relevant contracts that are provable (queue FIFO, per-system metadata FIFO) are owned by C12',
    'C11': 'Idle(world) after every tree is a postcondition of the root call of syscommand_runner: same reach problem as C02; the function-level ingredients (end clears, start consumes exactly one parked entry, cleanup_on_abort) are discharged under C03/C04/C05',
    'C15': 'the behaviour lives in an anonymous closure built inside ReactCommands::once; no nameable function carries a contract that states it, and it is observable only by running reaction trees through the runner (C02)',
}

# property -> claim.  `pending` = not built yet (listed under not_applicable with that reason until its obligations exist).
PROPS = {
    'C12': dict(category='other', design_ref='DESIGN.md 5/C12',
        text='Verus proves on the verbatim text of command_queue.rs (all lengths) that the postponed-command buffer is FIFO (push appends, remove hands over everything in order, append concatenates, pop_front = head) and, with lemma L1 (unbounded, any interleaving), that parked event metadata is a per-system FIFO given the contract of *AccessTracker::start; that contract (claims the OLDEST entry of the system, the other entries keep their ORDER) is discharged by Kani on the real start() of all four trackers for every content of parked lists of length 0..3 (quick) / 0..5 (thorough). Level other, not proof: start() is complete per list length only, and the runner replaying its buffer front-to-back is not under contract.',
        note='assumed: Kani tier runs the real crate against the stub Bevy of /verif/env (kept honest by the 81 repo tests passing against it); debug_assert! compiled out (release semantics); Vec/VecDeque specs of vstd; core::mem::replace assume_specification; syscommand_runner (replay order of the buffer) not covered',
        explanation='queue FIFO proved (Verus, unbounded); tracker prepare/end proved (Verus); tracker start complete per length L<=3/5 (Kani); lemma L1 lifts the start contract to per-system FIFO for unbounded histories; runner replay order not covered'),
    'C03': dict(category='other', design_ref='DESIGN.md 5/C03',
        text='Contracts on the four access trackers and every event reader: prepare = append, end clears (Verus, unbounded, verbatim text); start(r) claims the oldest entry parked for r and leaves the rest in order (Kani, every content of lists of length 0..3/5); each reader returns the causing event\'s own payload/target/source iff the tracker is reacting AND kind and type id are the reader\'s, and Err otherwise, incl. manual runs (Kani, loop-free, all flag/kind/type combinations, symbolic payloads); start_*/end_* in commands.rs start/stop exactly the trackers of their kind. Lemma L1 (Verus) lifts this to: for any interleaving of parked events each run of a system receives the oldest metadata parked for it. Not covered: that the runner replays postponed commands in parking order (runner-level histories; see known finding F3).',
        note='assumed: stub Bevy (Query::get, World resources) of /verif/env; release semantics (debug_assert! off); readers instantiated at payload types u32/u16 and component types A/B; the cross-kind metadata mix-up under nested replay (F3) is a runner-level history that no function contract decides: listed in known_findings.json',
        explanation='tracker prepare/end/getters proved by Verus; start and readers complete@shape by Kani; per-system FIFO by lemma L1; runner not covered'),
}
for k, v in NA.items():
    assert k not in PROPS

PENDING = {k: 'obligations for this property are not built yet (build in progress); not claimed until its check exists and passes on the unchanged tree'
           for k in ['C01','C04','C05','C06','C07','C08','C10','C13','C14','C16','C17','C18']}
