"""Which obligations decide which property (single source for ./check, MANIFEST generation and evidence)."""
import re

# ---------------------------------------------------------------------------------------------------------------
# Verus units: template -> [(function-name regex, [properties])]   (function names as Verus reports them,
# without the crate prefix).  A function may serve several properties.
# ---------------------------------------------------------------------------------------------------------------
VERUS_UNITS = {
    'queue': {
        'template': 'queue.rs.tpl',
        'owners': [(r'.*', ['C12'])],
        'negctl': [  # (literal old, literal new, function expected to FAIL) applied to the generated file
            ('ensures final(self).commands@ == old(self).commands@ + new@,',
             'ensures final(self).commands@ == new@ + old(self).commands@,', 'CobwebCommandQueue::append'),
        ],
    },
    'counter': {
        'template': 'counter.rs.tpl',
        'owners': [(r'.*', ['C05'])],
        'negctl': [
            ('ensures b == (self.count == 0),', 'ensures b == (self.count == 1),', 'DataEntityCounter::is_done'),
        ],
    },
    'trackers': {
        'template': 'trackers.rs.tpl',
        'owners': [
            (r'.*::prepare$', ['C03', 'C12']),
            (r'.*::start$', ['C03', 'C12', 'C16']),
            (r'.*::start_position(_pred)?$', ['C03', 'C12', 'C16']),
            (r'lemma_first_idx3?_(none|some)$', ['C03', 'C12']),
            (r'.*::end$', ['C03', 'C04']),
            (r'.*::(is_reacting|data_entity|system|source|reaction_type)$', ['C03', 'C04']),
            (r'.*::default$', ['C03', 'C04']),
            (r'lemma_.*', ['C03', 'C12']),
        ],
        'negctl': [
            # start must claim the FIRST entry of the system: claiming the entry after it must be rejected
            ('else { final(self).prepared@ == old(self).prepared@.remove(i) && final(self).currently_reacting && final(self).system == reactor',
             'else { final(self).prepared@ == old(self).prepared@.remove(i + 1) && final(self).currently_reacting && final(self).system == reactor', 'EntityReactionAccessTracker::start'),
            ('ensures !final(self).currently_reacting,\n        final(self).reactor_handle is None,',
             'ensures !final(self).currently_reacting,\n        final(self).reactor_handle is Some,', 'DespawnAccessTracker::end'),
        ],
    },
    'handles': {
        'template': 'handles.rs.tpl',
        'owners': [
            (r'ReactorHandle::sys_command$', ['C01', 'C06', 'C07']),
            (r'ReactorType::get_entity$', ['C16', 'C06']),
            (r'ReactorMode::prepare$', ['C07', 'C16']),
            (r'SystemCommandStorage::.*', ['C13']),
            (r'check_take_insert_roundtrip$', ['C13']),
            (r'SystemEventData::.*', ['C04']),
            (r'check_take_at_most_once$', ['C04']),
        ],
        'negctl': [
            ('ensures r == old(self).callback, final(self).callback is None,',
             'ensures r == old(self).callback, final(self).callback is Some,', 'SystemCommandStorage::take'),
        ],
    },
    'readers': {
        'template': 'readers.rs.tpl',
        'owners': [
            (r'(InsertionEvent|MutationEvent|RemovalEvent|DespawnEvent)::(get|is_empty)$', ['C03', 'C04']),
            (r'ReactComponentId::id$', ['C03']),
            (r'check_readers_exclusive$', ['C03', 'C04']),
            (r'(BroadcastEvent|EntityEvent)::(try_read|is_empty)$', ['C03', 'C04']),
            (r'SystemEvent::take$', ['C03', 'C04']),
            (r'(BroadcastEventData|EntityEventData)::read$', ['C03']),
            (r'SystemEventData::take$', ['C04']),
        ],
        'negctl': [
            ('ensures r is Ok <==> (self.tracker.value.currently_reacting && self.tracker.value.reaction_type == EntityReactionType::Insertion(self.component_id.value.id)),',
             'ensures r is Ok <==> (self.tracker.value.currently_reacting && self.tracker.value.reaction_type == EntityReactionType::Mutation(self.component_id.value.id)),', 'InsertionEvent::get'),
            ('ensures r is Ok <==> self.tracker.value.currently_reacting,', 'ensures r is Ok,', 'DespawnEvent::get'),
            ('&&& (present ==> final(self).data.items() == old(self).data.items().insert(e, SystemEventData { data: None }))', '&&& (present ==> final(self).data.items() == old(self).data.items())', 'SystemEvent::take'),
        ],
    },
    'cache': {
        'template': 'cache.rs.tpl',
        'owners': [
            (r'ReactCache::register_(insertion|mutation|removal|any_entity_event|resource_mutation|broadcast)_reactor$', ['C01', 'C07']),
            (r'ReactCache::register_despawn_reactor$', ['C01', 'C07', 'C08']),
            (r'ReactCache::track_removals$', ['C08']),
            (r'ReactCache::schedule_resource_mutation_reaction$', ['C01']),
            (r'ReactCache::schedule_broadcast_reaction$', ['C01', 'C05']),
            (r'ComponentReactors::(default|is_empty)$', ['C01', 'C06']),
            (r'ReactorHandle::sys_command$', ['C01']),
        ],
        'negctl': [
            ('else { old(commands).log().push(Queued::SpawnData { entity: d, readers: tab.len() as usize })',
             'else { old(commands).log().push(Queued::SpawnData { entity: d, readers: (tab.len() + 1) as usize })', 'ReactCache::schedule_broadcast_reaction'),
            ('ensures tab_mut(*final(self), type_id_spec::<C>()) == tab_mut(*old(self), type_id_spec::<C>()).push(handle),',
             'ensures tab_ins(*final(self), type_id_spec::<C>()) == tab_ins(*old(self), type_id_spec::<C>()).push(handle),', 'ReactCache::register_mutation_reactor'),
        ],
    },
    'commands': {
        'template': 'commands.rs.tpl',
        'owners': [
            (r'try_cleanup_data_entity$', ['C05', 'C18']),
            (r'(start|end)_system_event$', ['C03', 'C04', 'C05']),
            (r'(start|end)_entity_reaction$', ['C03', 'C04']),
            (r'(start|end)_despawn_reaction$', ['C03', 'C04', 'C07']),
            (r'(start|end)_entity_event$', ['C03', 'C04', 'C05']),
            (r'(start|end)_broadcast_event$', ['C03', 'C04', 'C05']),
            (r'(SystemCommand|EventCommand|ReactionCommand)::apply$', ['C03', 'C04', 'C05', 'C18']),
            (r'\w+AccessTracker::prepare$', ['C03']),
        ],
        'negctl': [
            ('cleanup_spec(old(world), final(world), old(world).event().data_entity),', 'ecs_same(old(world), final(world)),', 'end_entity_event'),
        ],
    },
    'abort': {
        'template': 'abort.rs.tpl',
        'owners': [(r'cleanup_on_abort$', ['C03', 'C05', 'C18'])],
        'negctl': [
            ('ensures *final(world) == poll_eff(gc_eff(cleanup_eff(cleanup, setup_eff(setup, *old(world))))),',
             'ensures *final(world) == poll_eff(gc_eff(setup_eff(setup, cleanup_eff(cleanup, *old(world))))),', 'cleanup_on_abort'),
        ],
    },
    'revoke': {
        'template': 'revoke.rs.tpl',
        'owners': [(r'revoke_reactor$', ['C06', 'C18']), (r'revoke_entity_reactor$', ['C06', 'C18'])],
        'negctl': [
            ('ReactorType::ComponentMutation(t) => (c_component(st.0, EntityReactionType::Mutation(t), id), st.1),',
             'ReactorType::ComponentMutation(t) => (c_component(st.0, EntityReactionType::Insertion(t), id), st.1),', 'revoke_reactor'),
        ],
    },
    'triggers': {
        'template': 'triggers.rs.tpl',
        'owners': [
            (r'\w+Trigger::reactor_type$', ['C01', 'C06']),
            (r'\w+Trigger::register$', ['C01', 'C07']),
            (r'DespawnTrigger::register$', ['C18', 'C08']),
            (r'register_(insertion|mutation|removal|any_entity_event|resource_mutation|broadcast)_reactor$', ['C01', 'C07']),
            (r'(register_removal_reactor|(Removal|EntityRemoval)Trigger::register)$', ['C08']),
            (r'register_entity_reactor$', ['C01', 'C07', 'C18']),
            (r'track_removals$', ['C08']),
            (r'register_reactors$', ['C07', 'C01']),
            (r'ReactorMode::prepare$', ['C07']),
        ],
        'negctl': [
            ('ensures r == ReactorType::EntityMutation(self.0, type_id_spec::<C>()),', 'ensures r == ReactorType::EntityInsertion(self.0, type_id_spec::<C>()),', 'EntityMutationTrigger::reactor_type'),
            ('ensures one_syscall((*old(commands)).log(), (*final(commands)).log(), register_broadcast_reactor::<E>, *handle),', 'ensures one_syscall((*old(commands)).log(), (*final(commands)).log(), register_any_entity_event_reactor::<E>, *handle),', 'BroadcastTrigger::register'),
        ],
    },
    'accessors': {
        'template': 'accessors.rs.tpl',
        'owners': [(r'React::(get|get_mut|get_noreact|set_if_neq|take)$', ['C14']), (r'ReactResInner::(new|get_mut|get_noreact|set_if_neq|take)$', ['C14']), (r'ReactiveMut::(set_if_neq|set_single_if_not_eq|get_mut|single_mut|get_noreact)$', ['C14']), (r'ReactResMut::(get_mut|get_noreact|set_if_neq)$', ['C14'])],
        'negctl': [
            ('&&& (new.eq_spec(&old_c.component) ==> (r is None && new_c.component == old_c.component && log1 == log0))', '&&& (new.eq_spec(&old_c.component) ==> (r is None && new_c.component == old_c.component && log1.len() == log0.len() + 1))', 'ReactiveMut::set_if_neq'),
            ('new.eq_spec(&old(self).component) ==> (r is None && final(self).component == old(self).component && (*final(c)).log() == (*old(c)).log()),',
             'new.eq_spec(&old(self).component) ==> (r is None && final(self).component == old(self).component && (*final(c)).log().len() == (*old(c)).log().len() + 1),', 'React::set_if_neq'),
        ],
    },
    'react_commands': {
        'template': 'react_commands.rs.tpl',
        'owners': [(r'ReactCommands::insert$', ['C14', 'C18', 'C01']), (r'ReactCommands::(broadcast|entity_event|trigger_resource_mutation)$', ['C01', 'C14']), (r'ReactCommands::revoke$', ['C06']), (r'ReactCommands::(on|on_persistent|on_revokable|with)$', ['C07', 'C01', 'C06'])],
        'negctl': [
            ('.push(reg_call(triggers, sc, ReactorMode::Persistent)) }),', '.push(reg_call(triggers, sc, ReactorMode::Cleanup)) }),', 'ReactCommands::on_persistent'),
            ('!old(self).commands.alive().contains(entity) ==> final(self).commands.log() == old(self).commands.log(),', '!old(self).commands.alive().contains(entity) ==> final(self).commands.log().len() == old(self).commands.log().len() + 1,', 'ReactCommands::insert'),
        ],
    },
    'world_reactors': {
        'template': 'world_reactors.rs.tpl',
        'owners': [(r'Reactor::(add|add_starting_triggers)$', ['C16', 'C07']), (r'Reactor::(remove|run)$', ['C16', 'C06']), (r'EntityReactor::add$', ['C16', 'C07']), (r'EntityReactor::(remove|system)$', ['C16', 'C06']), (r'EntityWorldLocal::new$', ['C16']), (r'cleanup_(reactor_data|find|find_pred)$', ['C16']), (r'add_world_reactor(_sys)?$', ['C16'])],
        'negctl': [
            ('sys: self.inner->Some_0.sys_command, mode: ReactorMode::Persistent }),', 'sys: self.inner->Some_0.sys_command, mode: ReactorMode::Cleanup }),', 'EntityReactor::add'),
        ],
    },
    'runner': {
        'template': 'runner.rs.tpl',
        'owners': [(r'syscommand_runner$', ['C03', 'C05', 'C07', 'C08', 'C12', 'C13', 'C18']), (r'replay_buffered(_\d+)?$', ['C03', 'C05', 'C12', 'C18']), (r'kept_of$', ['C12'])],
        'negctl': [
            ('(w_out.counter().0 == 0 && w_out.queue().commands@.len() == 0))', '(w_out.counter().0 == 1 && w_out.queue().commands@.len() == 0))', 'syscommand_runner'),
            ('idx != 0) ==> (w_out.queue().commands@ == w0.queue().commands@.push(', 'idx != 0) ==> (w_out.queue().commands@ == w0.queue().commands@.drop_last().push(', 'syscommand_runner'),
            # the replay closure must hand the buffered entry's OWN cleanup to the runner
            ('if b.command == command { runner_post(w_a, b.command, b.setup, b.cleanup, w_b) }', 'if b.command == command { runner_post(w_a, b.command, b.setup, b.cleanup, w_b) && w_b == w_a }', 'replay_buffered'),
            # kept entries keep their order (the retain loop's invariant)
            ('if s.last().command == command { r } else { r.push(s.last()) }', 'if s.last().command == command { r } else { seq![s.last()] + r }', 'syscommand_runner'),
        ],
    },
    'gc': {
        'template': 'gc.rs.tpl',
        'owners': [(r'garbage_collect_entities$', ['C10', 'C07']), (r'lemma_(skip|prefix)_contains$', ['C10'])],
        'negctl': [
            # a collector that is allowed to stop early would satisfy this weaker G1 only if the contract were vacuous
            ('ensures final(world).pending().len() == 0,', 'ensures final(world).pending().len() == 0, final(world).alive() == old(world).alive(),', 'garbage_collect_entities'),
            ('forall|e: Entity| #[trigger] old(world).pending().contains(e) ==> !final(world).alive().contains(e),', 'forall|e: Entity| #[trigger] old(world).alive().contains(e) ==> !final(world).alive().contains(e),', 'garbage_collect_entities'),
        ],
    },
    'despawn_reg': {
        'template': 'despawn_reg.rs.tpl',
        'owners': [(r'register_despawn_(reactor|scope)$', ['C07', 'C18', 'C01', 'C08']), (r'DespawnTracker::drop$', ['C08'])],
        'negctl': [
            # R3 must be a real obligation: if an existing tracker could be replaced the precondition of insert is violated
            ('&& (tr0.dom().contains(entity) ==> tr1 =~= tr0)', '&& (tr0.dom().contains(entity) ==> tr1 =~= tr0.remove(entity))', 'register_despawn_scope'),
            # R1: nothing for a dead entity
            ('(!alive0.contains(entity) ==> (tr1 =~= tr0 && c1.despawn_tab() =~= c0.despawn_tab()))', '(!alive0.contains(entity) ==> (tr1 =~= tr0 && tab_of(c1.despawn_tab(), entity) == tab_of(c0.despawn_tab(), entity).push(handle)))', 'register_despawn_scope'),
        ],
    },
    'despawn_dispatch': {
        'template': 'despawn_dispatch.rs.tpl',
        'owners': [(r'ReactCache::schedule_despawn_reactions$', ['C01', 'C07', 'C08']), (r'ReactorHandle::sys_command$', ['C01'])],
        'negctl': [
            # the list must be consumed by its first report
            ('else if tab.dom().contains(p[0]) { cmds_for(p[0], tab[p[0]]@) + all_cmds(p.skip(1), tab.remove(p[0])) }', 'else if tab.dom().contains(p[0]) { cmds_for(p[0], tab[p[0]]@) + all_cmds(p.skip(1), tab) }', 'ReactCache::schedule_despawn_reactions'),
            # the command must carry the handle itself
            ('ReactionCommand::Despawn { reaction_source: e, reactor: h.sys(), handle: h })', 'ReactionCommand::Despawn { reaction_source: e, reactor: h.sys(), handle: ReactorHandle::Persistent(h.sys()) })', 'ReactCache::schedule_despawn_reactions'),
        ],
    },
    'poll': {
        'template': 'poll.rs.tpl',
        'owners': [(r'(schedule_removal_and_despawn_reactors|poll_scope)$', ['C07', 'C01', 'C08'])],
        'negctl': [
            ('*final(world) == flush_eff(with_cache(p.1, p.0)) }),', '*final(world) == with_cache(p.1, p.0) }),', 'schedule_removal_and_despawn_reactors'),
            ('{ let r = removal_eff(c0, w0); despawn_eff(r.0, r.1) }', '{ let r = despawn_eff(c0, w0); removal_eff(r.0, r.1) }', 'poll_scope'),
        ],
    },
    'dispatch_event': {
        'template': 'dispatch_event.rs.tpl',
        'owners': [(r'ReactCache::schedule_entity_event_reaction$', ['C05', 'C01']), (r'DataEntityCounter::new$', ['C05'])],
        'negctl': [
            ('Queued::SpawnData { entity: d, readers: n as usize }) + scoped_cmds(scoped, target, d) + wide_cmds(wide, target, d) }) }),', 'Queued::SpawnData { entity: d, readers: (n + 1) as usize }) + scoped_cmds(scoped, target, d) + wide_cmds(wide, target, d) }) }),', 'ReactCache::schedule_entity_event_reaction'),
            ('final(commands).log() == (if n == 0 { old(commands).log() }', 'final(commands).log() == (if wide.len() == 0 { old(commands).log() }', 'ReactCache::schedule_entity_event_reaction'),
        ],
    },
    'syscalls': {
        'template': 'syscalls.rs.tpl',
        'owners': [(r'(spawned_syscall|syscall_with_validation|named_syscall|named_syscall_direct|ims_default|register_named_system_from)$', ['C17']), (r'IdMappedSystems::default$', ['C17']), (r'(spawn_system_from|SysId::(new|entity)|SpawnedSystem::new)$', ['C17'])],
        'negctl': [
            # S3: the SAME system value must be stored back
            ('final(world).spawned::<I, O>() =~= out.0.spawned::<I, O>().insert(e, SpawnedSystem { system: Some(out.1) }))', 'final(world).spawned::<I, O>() =~= out.0.spawned::<I, O>().insert(e, SpawnedSystem { system: Some(st->Some_0.system->Some_0) }))', 'spawned_syscall'),
            # Y1: no validation on the cached path
            ('&&& (cached is Some ==> ({ let out = sysrun_eff::<I, O>(rem_eff::<InitializedSystem<I, O, S>>(*old(world)),', '&&& (cached is Some ==> ({ let out = sysrun_eff::<I, O>(validate_eff(rem_eff::<InitializedSystem<I, O, S>>(*old(world)), validation),', 'syscall_with_validation'),
            # N2 (direct): nothing runs and the table is unchanged for an unknown name
            ('&& same_but::<IdMappedSystems<I, O>>(*old(world), *final(world)) && named::<I, O>(*final(world)) =~= m0))', '&& same_but::<IdMappedSystems<I, O>>(*old(world), *final(world)) && named::<I, O>(*final(world)) =~= m0.insert(sys_name, None)))', 'named_syscall_direct'),
        ],
    },
    'entity_reactors': {
        'template': 'entity_reactors.rs.tpl',
        'owners': [(r'EntityReactors::(insert|remove|remove_pred)$', ['C06', 'C01', 'C16']), (r'ReactorHandle::sys_command$', ['C01'])],
        'negctl': [
            ('pub open spec fn hit(x: (EntityReactionType, ReactorHandle), rtype: EntityReactionType, id: SystemCommand) -> bool { x.0 == rtype && x.1.sys() == id }', 'pub open spec fn hit(x: (EntityReactionType, ReactorHandle), rtype: EntityReactionType, id: SystemCommand) -> bool { x.0 == rtype || x.1.sys() == id }', 'EntityReactors::remove_pred'),
            ('ensures final(self).reactors@ == old(self).reactors@.push((rtype, handle)),', 'ensures final(self).reactors@ == seq![(rtype, handle)] + old(self).reactors@,', 'EntityReactors::insert'),
        ],
    },
    'removal_dispatch': {
        'template': 'removal_dispatch.rs.tpl',
        'owners': [(r'ReactCache::schedule_removal_reactions$', ['C08', 'C01']), (r'ReactCache::vec_default_thunk$', ['C08'])],
        'negctl': [
            # the commands must name the kind Removal of THAT checker's component type
            ('let rt = EntityReactionType::Removal(t);', 'let rt = EntityReactionType::Mutation(t);', 'ReactCache::schedule_removal_reactions'),
            # every reported entity must be reacted to, not only the first
            ('if b.len() == 0 { w } else { buf_world(ent_world(w, b[0], t, comp), b.skip(1), t, comp) }', 'if b.len() == 0 { w } else { ent_world(w, b[0], t, comp) }', 'ReactCache::schedule_removal_reactions'),
        ],
    },
    'removal_collect': {
        'template': 'removal_collect.rs.tpl',
        'owners': [(r'collect_component_removals$', ['C08'])],
        'negctl': [
            # the result must be ALL unread reports, not all but the last
            ('ensures r@ == removed.unread(),', 'ensures r@ == removed.unread().drop_last(),', 'collect_component_removals'),
            # ... and must not depend on what the recycled buffer contained
            ('ensures r@ == removed.unread(),', 'ensures r@ == verif_in.0@ + removed.unread(),', 'collect_component_removals'),
        ],
    },
    'callbacks': {
        'template': 'callbacks.rs.tpl',
        'owners': [(r'(Raw)?CallbackSystem::(run_with_cleanup|initialize)$', ['C13', 'C17', 'C04']), (r'CallbackSystem::(take_initialized|is_empty|is_new|has_system)$', ['C13']),
                   (r'RawCallbackSystem::(new|is_new|is_initialized)$', ['C13'])],
        'negctl': [
            # an Initialized system must NOT be initialised again
            ('CallbackSystem::Initialized(s) => ({ let out = rinit_eff::<Sys<I, O>, O>(*old(world), *s, enc(input), cleanup);', 'CallbackSystem::Initialized(s) => ({ let i0 = init_eff::<Sys<I, O>>(*old(world), *s); let out = rinit_eff::<Sys<I, O>, O>(i0.0, i0.1, enc(input), cleanup);', 'CallbackSystem::run_with_cleanup'),
            # the slot must hold the system AS THE RUN LEFT IT
            ('r == out.2 && *final(world) == out.0 && *final(self) == RawCallbackSystem::<I, O, S>::Initialized(out.1) }),\n        RawCallbackSystem::Initialized(s)', 'r == out.2 && *final(world) == out.0 && *final(self) == RawCallbackSystem::<I, O, S>::Initialized(i.1) }),\n        RawCallbackSystem::Initialized(s)', 'RawCallbackSystem::run_with_cleanup'),
        ],
    },
    'entity_local': {
        'template': 'entity_local.rs.tpl',
        'owners': [(r'EntityLocal::(check|entity|get|get_mut)$', ['C16']), (r'EntityWorldLocal::(inner|inner_mut)$', ['C16'])],
        'negctl': [
            ('ensures r.0 == self.tracker.value.reaction_source, *r.1 == self.data.items()[r.0].data,', 'ensures r.0 == self.tracker.value.reaction_source, *r.1 == self.data.items()[self.tracker.value.system.0].data,', 'EntityLocal::get'),
            ('final(self).data.items() == old(self).data.items().insert(r.0, EntityWorldLocal { data: *final(r.1) }),', 'final(self).data.items() == old(self).data.items(),', 'EntityLocal::get_mut'),
        ],
    },
    'spawning': {
        'template': 'spawning.rs.tpl',
        'owners': [(r'spawn_(rc_)?system_command_from$', ['C13', 'C07']), (r'SystemCommandStorage::new$', ['C13'])],
        'negctl': [
            ('ensures spawned(*old(world), callback, *final(world), r.spec_entity()),', 'ensures spawned(*old(world), callback, *final(world), fresh(*final(world))),', 'spawn_rc_system_command_from'),
        ],
    },
    'dispatch': {
        'template': 'dispatch.rs.tpl',
        'owners': [(r'schedule_entity_reaction_impl$', ['C01', 'C14']), (r'ReactCache::schedule_(insertion|mutation)_reaction$', ['C01', 'C14'])],
        'negctl': [
            ('wide_cmds(m[type_id_spec::<C>()].mutation_callbacks@, e, rt)', 'wide_cmds(m[type_id_spec::<C>()].insertion_callbacks@, e, rt)', 'ReactCache::schedule_mutation_reaction'),
            ('final(commands).log() == (if !inserted.matched().contains(e) { old(commands).log() }', 'final(commands).log() == (if inserted.matched().contains(e) { old(commands).log() }', 'ReactCache::schedule_insertion_reaction'),
        ],
    },
    'cache_revoke': {
        'template': 'cache_revoke.rs.tpl',
        'owners': [(r'ReactCache::revoke_(any_entity_event|resource_mutation|broadcast|despawn)_reactor$', ['C06', 'C01', 'C07']),
                   (r'ReactCache::revoke_component_reactor$', ['C06', 'C01', 'C07', 'C08']), (r'ComponentReactors::is_empty$', ['C06', 'C01'])],
        'negctl': [
            ('ensures revoked(old(self).resource_reactors.view(), final(self).resource_reactors.view(), resource_id, reactor_id),', 'ensures revoked(old(self).resource_reactors.view(), final(self).resource_reactors.view(), resource_id, reactor_id), final(self).resource_reactors.view().dom().contains(resource_id),', 'ReactCache::revoke_resource_mutation_reactor'),
            ('&&& first_removed(clist(om, t, rtype), clist(nm, t, rtype), reactor_id)', '&&& clist(nm, t, rtype) =~= clist(om, t, rtype)', 'ReactCache::revoke_component_reactor'),
        ],
    },
    'lemmas': {
        'template': 'lemmas.rs.tpl',
        'owners': [
            (r'lemma_(first_idx|count_cons|count_remove|register|revoke|single_registration_revoked|history)$', ['C01', 'C06']),
            (r'lemma_refcount_exact$', ['C07', 'C10']),
        ],
        'negctl': [
            ('else if st.0 == 1 { (0, st.1 + 1) }', 'else if st.0 == 1 { (0, st.1 + 2) }', 'lemma_refcount_exact'),
        ],
    },
}


def verus_units_for(prop):
    out = {}
    for unit, u in VERUS_UNITS.items():
        pats = [rx for rx, props in u['owners'] if prop in props]
        if pats:
            out[unit] = pats
    return out


def verus_owned(unit, prop, fname):
    for rx, props in VERUS_UNITS[unit]['owners']:
        if prop in props and re.match(rx + r'\Z', fname):
            return True
    return False


# ---------------------------------------------------------------------------------------------------------------
# Per-property claim text (level, notes).  Kani harnesses are attached through the `//# ... props=` annotations in
# contracts/kani/*.rs (tools/kani_run.parse_annotations).
# ---------------------------------------------------------------------------------------------------------------

TECH = 'contract-based deductive verification of the real code: Verus contracts on verbatim-extracted functions + Kani contract harnesses on the staged real crate'

NA = {
    'C02': 'a statement about WHOLE TREES of runs: \'exactly once for every scheduled run, all of them done when the flush returns\'. The per-call contract of syscommand_runner is proved (unit runner: abort / postpone / replay-step / poll / reinsert clauses A-G on the verbatim body with its replay closure lifted), but a run\'s body is an arbitrary system (an uninterpreted effect that can queue anything), so lifting the per-call clauses to \'every run of every tree\' needs an induction over the tree with a measure on opaque effects - no contract within reach of Verus or Kani states or decides it (Kani cannot compile real Bevy and did not finish a 3-run tree on the stubbed crate in 20 min)',
    'C09': 'an order relation over all pairs of runs of a tree produced by the recursive runner plus Bevy\'s per-command flush: whole-tree statement like C02, and the oracle would be a reference interpreter of the expected order (a model: different family). The order-relevant contracts that ARE provable - queue FIFO, per-system metadata FIFO, replay of postponed commands front to back with their own triple, postponed commands appended at the end - are owned by C12',
    'C11': 'Idle(world) after every tree is a postcondition of the ROOT call of syscommand_runner over everything the tree did: the provable part - the root call that ran its system returns with counter 0 and an empty buffer (clause C), no exit while a callback is held (G), the same callback stored back (F), end_* clear their trackers - is discharged under C03/C04/C05/C13; that NO metadata is left parked after an arbitrary tree is an inductive statement over opaque system bodies, as for C02',
    'C15': 'the behaviour lives in two nested anonymous closures built inside ReactCommands::once (the inner one passes further closures over &mut World to run_with_cleanup / World::react); closure lifting (DESIGN 9.2) handles one level with std-documented combinators, not this shape, and \'runs on the first trigger and never again\' is observable only by running reaction trees through the runner (C02)',
}

# property -> claim.
ENVNOTE = 'Kani tier runs the real crate against the assumed Bevy of /verif/env (kept honest by the 81 repo tests passing against it, setup + thorough); Verus tier uses spec-level stand-ins for Bevy/std types listed in each evidence file (assume_specification / external_body / uninterp); debug_assert! compiled out / dropped (release semantics)'

PROPS = {
    'C01': dict(category='other', design_ref='DESIGN.md 5/C01',
        text='Registration tables as abstract maps key -> list: Verus proves on the verbatim text, for tables and lists of ANY size, that each of the 7 ReactCache::register_* functions appends exactly one handle to exactly the list named by (kind, key) and leaves every other list of every table unchanged, and that schedule_resource_mutation_reaction / schedule_broadcast_reaction queue exactly one command per entry of the trigger type\'s list, in order, with the right reactor id (and nothing for an empty list). schedule_insertion_reaction / schedule_mutation_reaction / schedule_entity_reaction_impl are likewise proved for per-entity and type-wide lists of any length (Verus, verbatim, against an assumed sequence stand-in for Vec and the assumed contract of EntityReactors::iter_rtype). schedule_removal_reactions (Verus, unbounded): per checker and reported entity, exactly the entity-scoped Removal registrations of that component type then the type-wide ones, nothing else. schedule_despawn_reactions (Verus, verbatim, any number of reports / lists of any length): one Despawn command per handle registered for a reported entity, in list order, the list consumed by the first report, nothing for entities without list. Kani discharges on the real code, for bounded shapes, the functions outside Verus\' subset: EntityReactors::{insert,remove,count,iter_rtype,iter_reactors} (lists L<=3, all contents), a restatement of schedule_entity_event_reaction (itself proved by Verus for lists of any length, unit dispatch_event), a restatement of ReactCache::revoke_* on the compiled code (the five revoke_* themselves are proved by Verus for lists of any length: neighbours keep their entries), and restates schedule_{insertion,mutation}_reaction on the compiled code (entity-scoped + type-wide listeners, wrong-kind / wrong-type entries present and not fired). Lemma L3 (Verus) lifts register/revoke contracts to arbitrary histories on one key. Level other: the schedule_* functions with Query access are bounded stand-ins; that Bevy applies the scheduling command in-line is runner/queue semantics (C02/C09, not applicable).',
        note=ENVNOTE + '; maps = finite partial maps (hashing not modelled); Vec as an assumed sequence stand-in in units cache_revoke / dispatch; tuple trigger bundles (macro-generated) not under contract',
        explanation='register_* x7, revoke_* x5, 4 schedule fns and the 11 trigger types proved unbounded (Verus, verbatim); EntityReactors and entity-event dispatch bounded (Kani); history lemma L3'),
    'C03': dict(category='other', design_ref='DESIGN.md 5/C03',
        text='Contracts on the four access trackers, every event reader and the setup/cleanup functions of commands.rs: prepare = append, end clears (Verus, unbounded, verbatim); start(r) claims the oldest entry parked for r and leaves the rest in order, for parked lists of ANY length (Verus, verbatim; the `position` closure lifted by extraction rule 17; restated on the compiled code by Kani for every content of lists of length 0..3 quick / 0..5 thorough); Insertion/Mutation/Removal/DespawnEvent::get return the current reaction\'s source iff the tracker is reacting AND kind AND component type id are the reader\'s, generically in the component type (Verus, verbatim); BroadcastEvent / EntityEvent::try_read return the payload stored on the data entity of the CURRENT event reaction iff the event tracker is reacting and that entity carries a payload of the reader\'s type, and SystemEvent::take hands its payload out at most once and never outside a system-event run - generically in the payload type (Verus, verbatim); Kani restates the three readers on the compiled code for payload types u32/u16 (loop-free); each command\'s apply parks its metadata in exactly the tracker(s) of its kind and hands the runner the (start, end) pair of that kind (Verus, verbatim); start_X/end_X start/stop exactly the trackers of kind X (Verus, verbatim, against the assumed World contract); cleanup_on_abort = setup then cleanup, unconditionally (Verus). Lemma L1 (Verus) lifts the start contract to: for any interleaving of parked events each run of a system receives the oldest metadata parked for it. The runner\'s replay of postponed commands is under contract too (Verus, closure body verbatim, lifted by extraction rule 14): an entry of the buffer that names the command that just finished is handed back to the runner with ITS OWN (command, setup, cleanup) triple - the pair that starts/ends the trackers of its kind - entries are visited front to back, the others are kept in order. Not covered: histories over nested trees, where metadata parked by different kinds of command interleave (known finding F3).',
        note=ENVNOTE + '; the cross-kind metadata mix-up under nested replay (F3) is a runner-level history that no function contract decides: listed in known_findings.json',
        explanation='tracker prepare/start/end/getters, entity-reaction and despawn readers, start_/end_* and cleanup_on_abort proved by Verus on verbatim text (unbounded); event readers complete@shape by Kani; per-system FIFO by lemma L1; runner not covered'),
    'C04': dict(category='other', design_ref='DESIGN.md 5/C04',
        text='Kani discharges on the real run_initialized_system, for exclusive and non-exclusive systems with 0 and 2 deferred commands, that the cleanup runs exactly once, after the system body and before the first command the body deferred is applied; and on RawCallbackSystem / CallbackSystem::run_with_cleanup that this holds on every one of 2-3 consecutive runs and for the Empty callback. Verus proves on verbatim text that every end_X cleanup leaves its tracker(s) not reacting (and releases the payload per C05), that every reader - the four entity-reaction readers, DespawnEvent, BroadcastEvent, EntityEvent, SystemEvent - returns Err when its tracker is not reacting (generic in the component / payload type), and that a system-event payload can be taken at most once (SystemEvent::take leaves None behind). Level other: the stub System used by the callback harnesses stands for Bevy\'s function/exclusive systems; positions in arbitrary trees and the anonymous closure of ReactCommands::once are not under contract.',
        note=ENVNOTE + '; `unsafe` in run_initialized_system trusted; stub System = assumed contract of bevy System (run = run_unsafe + apply_deferred; exclusive run = body + flush)',
        explanation='cleanup placement complete per (exclusive?, #deferred) shape by Kani on the real function; end_* and readers proved by Verus; once() closure and tree positions not covered'),
    'C05': dict(category='other', design_ref='DESIGN.md 5/C05',
        text='Verus proves on verbatim text: DataEntityCounter arithmetic (released at exactly the n-th of n decrements, lemma L2); try_cleanup_data_entity despawns the payload entity iff the decrement reaches 0 and is a no-op for entities that are gone or carry no counter; end_{entity_event,broadcast_event} perform exactly one such cleanup on the current event\'s data entity, end_system_event despawns its payload entity; schedule_broadcast_reaction spawns ONE payload entity whose counter equals the number of queued readers (any list length) and spawns nothing for zero listeners; cleanup_on_abort runs setup then cleanup for a skipped run; on every path of syscommand_runner on which the target cannot run now (entity gone, storage missing, callback taken at the root) exactly one cleanup_on_abort happens after the entry cleanup and nothing else, and a command whose callback is taken below the root is postponed without any cleanup (Verus, the runner verbatim); the replay closure of the runner (body verbatim, lifted to a named fn by extraction rule 14) hands every postponed entry that names the finished command back to the runner with the entry\'s OWN cleanup - so its payload is released by its own end_X or, if the target died meanwhile, by clause A - removes it from the buffer, and keeps every other entry. schedule_entity_event_reaction (Verus, verbatim modulo extraction rule 18, lists of any length): nothing is spawned for zero listeners, otherwise ONE payload entity whose counter is exactly the number of EntityEvent commands queued after it (entity-scoped + type-wide), each naming that payload entity; Kani restates this on the compiled code for bounded shapes, and checks try_cleanup_data_entity on the stub World. Not covered: release at the latest when the tree ends / root discard (runner).',
        note=ENVNOTE,
        explanation='counter, cleanup, broadcast and entity-event scheduling proved by Verus (unbounded; entity-event restated by Kani, bounded); runner abort/postpone/replay-step clauses proved (Verus); whole-tree release not covered'),
    'C06': dict(category='other', design_ref='DESIGN.md 5/C06',
        text='Verus proves on the verbatim revoke_reactor / revoke_entity_reactor, for tokens of ANY length, that every element of the token is processed, in order, by exactly the revocation its kind names (right table, right key, right reaction type, the token\'s id), entity-scoped elements being skipped - not aborting the walk - when the entity is gone. The per-table revocations assumed there are themselves proved for lists of ANY length: all five ReactCache::revoke_* remove exactly the first entry of the id from the named list, keep every other entry, leave sibling lists / other keys / other tables untouched, are a no-op for an absent id or key, and drop the map entry exactly when its lists are empty (Verus, verbatim modulo two stated normalizations: Vec as an assumed sequence stand-in whose iter().enumerate() Verus\' for-loops understand, and `if C { continue; } REST` read as `if C {} else { REST }`); the same contract is discharged on the compiled code with std\'s Vec by Kani for lists of length 0..4 (multiset comparison); EntityReactors::remove deletes exactly the entries that match BOTH the reaction type and the reactor id and keeps every other entry in order, for lists of ANY length (Verus, closure lifted by extraction rule 22; restated by Kani on the SmallVec-based compiled code, L<=4). Lemma L3 (Verus): over any history on one key, the number of live entries of an id is registrations minus effective revocations, other ids unaffected.',
        note=ENVNOTE + '; the assumed effects of the callees in unit `revoke` are uninterpreted functions - their meaning is fixed by the Kani contracts, the correspondence is by review',
        explanation='token walk and the five type-wide revoke_* proved unbounded (Verus); per-entity removal and a compiled-code restatement bounded (Kani); history lemma L3'),
    'C07': dict(category='other', design_ref='DESIGN.md 5/C07 + 9.5',
        text='Handle-balance contracts on the real code: the entry points fix the mode - ReactCommands::on spawns ONE system command and registers the whole bundle for it once under Cleanup, on_persistent under Persistent (returning the id), on_revokable under Revokable (returning the token of exactly that reactor and bundle); `with` returns a token only for Revokable (Verus, verbatim, generic); ReactorMode::prepare gives a persistent reactor a plain handle (never ref-counted, hence never collected) and every other mode a signal for exactly the reactor\'s entity (Verus, verbatim); each of the 11 trigger types registers exactly ONE clone of the handle per trigger into the table its reactor_type() names, none for a despawn trigger on a dead entity, and register_entity_reactor stores none when the entity is gone (Verus, verbatim, generic); register_* store exactly the handle they are given (Verus, unbounded); revoke_* drop exactly one entry of the revoked reactor and no neighbour (Verus, any length; Kani restatement L<=4), EntityReactors::remove exactly the (type, id) matches (Kani, L<=4); register_reactors turns the mode into ONE handle and registers the whole bundle with it (Verus); the register_despawn_reactor system (closure body verbatim, lifted by extraction rule 16) stores the handle iff the target is still alive when the command is applied, never replaces an existing DespawnTracker (which would report a despawn that did not happen) and wires a new tracker to this cache\'s despawn channel (Verus); schedule_despawn_reactions moves every handle of a despawned entity\'s list INTO its Despawn command and removes the list (Verus, verbatim, unbounded), DespawnAccessTracker holds the in-flight handle from start to end and end drops it (Verus) - so the reactor outlives its pending despawn reaction and not longer; the signal itself is an exact reference count: the reactor\'s id is sent to the despawner exactly once, at the drop of the last clone (Kani on real std::sync::Arc + the assumed channel, 1..3 clones; lemma L4). One collection (Verus, garbage_collect_entities verbatim modulo extraction rule 15; unit gc): the request channel is EMPTY on return - the collector never stops early - and every entity whose request was pending on entry is gone on return, so a reactor whose last handle has disappeared is despawned by the first collection that follows; requests for entities that are already gone are skipped. Level other: WHEN the runner collects / polls is NOT discharged (whole-tree histories); that despawning the entity drops its system state and captures is Bevy\'s component drop (assumed).',
        note=ENVNOTE + '; Arc/channel: sequential semantics; in unit gc the channel receiver and World::resource are given exclusive (&mut) access in place of crossbeam\'s interior mutability',
        explanation='one clone per effective registration, one drop per revocation, in-flight handle dropped at end, exact ref-count of the signal (Kani, bounded), one collection drains every pending request (Verus, unbounded); collection points in the runner not covered'),
    'C08': dict(category='other', design_ref='DESIGN.md 9.5',
        text='Despawn half, function level, all proved by Verus on verbatim text for tables / lists / report queues of ANY size: DespawnTrigger::register queues the registration only for a live entity; the register_despawn_reactor system (closure lifted, rule 16) stores the handle iff the entity is alive when the command is applied, never replaces an existing DespawnTracker (replacing it would report a despawn that did not happen) and wires a new tracker to this cache\'s channel for this entity; ReactCache::register_despawn_reactor appends exactly this handle to the entity\'s list; schedule_despawn_reactions consumes the reports front to back until the channel is empty, queues exactly ONE Despawn command per handle registered for a reported entity, naming that entity and carrying the handle, and REMOVES the list - so a second report of the same entity, or a later poll, fires nothing (at most once per watched entity) and an unreported entity fires nothing; schedule_removal_and_despawn_reactors (closure lifted) polls removals, then despawns, then flushes the queued reaction commands before returning; syscommand_runner polls at its entry, on every abort path and - at EVERY level of the tree - after the run and its garbage collection and before any postponed command is replayed (clause E), so a despawn caused inside a tree is reacted to inside that tree. Removal half: track_removals installs exactly one checker per component type ever watched and (Entity)RemovalTrigger::register / register_removal_reactor store exactly one handle in the table their token names (Verus); schedule_removal_reactions (Verus, verbatim modulo the stated loop normalizations, any number of checkers / reported entities / list lengths) polls every checker once, in table order, and for the entities a checker reports queues - in report order - exactly one EntityReaction(Removal(that checker\'s component type)) per entity-scoped registration of that kind on the reported entity followed by one per type-wide removal registration of that component type, each naming the reported entity, and nothing else (what a checker reports is an uninterpreted function: detection is Bevy\'s). no revocation touches the removal polling state: the five revoke_* leave tracked_removals and removal_checkers as they were (Verus, frame clauses of unit cache_revoke; a checker also serves the entity-scoped removal reactors, which the type-wide lists do not count); collect_component_removals (Verus, verbatim modulo extraction rule 29 `for_each` -> `for`, any number of reports) returns EXACTLY the removal reports its Bevy reader has not read yet - each once, in report order, nothing filtered out or added, whatever the recycled buffer contained. NOT covered: detection itself (Bevy: RemovedComponents and its cursor, component drop on despawn), the Last-schedule poll of the plugin, and whole histories (re-insert between polls).',
        note=ENVNOTE + '; channel receiver modelled with &mut access; Vec stand-in (drain, &mut iteration); what a removal checker reports is uninterpreted (detection assumed)',
        explanation='despawn registration, despawn and removal dispatch (exactly one command per registration), poll order and poll points in the runner proved (Verus, unbounded); detection (Bevy) and histories between polls not covered'),
    'C10': dict(category='other', design_ref='DESIGN.md 5/C10 + 9.5',
        text='Kani discharges on the real AutoDespawner / AutoDespawnSignal (real std::sync::Arc, assumed FIFO channel) that for 1..3 clones dropped one by one, with the request channel polled after every drop, the prepared entity is requested for despawn exactly once, at the drop of the LAST clone, never while a clone exists, and with the right entity id (symbolic); AutoDespawner::new creates an UNBOUNDED request channel (no request can be lost or blocked however many are pending), and a repeated setup_auto_despawn keeps the existing despawner, so signals prepared earlier stay connected. Lemma L4 (Verus) generalises the count to k clones over the assumed Arc contract. Verus proves on the verbatim garbage_collect_entities (modulo extraction rule 15: `.ok().map(|e| e.despawn_recursive())` read as `if let Ok(e) = .. { e.despawn_recursive(); }`), for ANY number of pending requests including requests enqueued by the despawns themselves: on return the request channel is empty (G1: the collector never stops early), every entity whose request was pending on entry is not alive (G2), a request for an entity that is already gone is skipped and changes nothing - hence a second collection right after the first does nothing (idempotence) - and no entity is revived (G3); that despawn_recursive takes the descendants along is Bevy\'s contract (assumed). In that unit crossbeam\'s interior mutability (`&self` receiver) is modelled as exclusive access to the same FIFO state. Threads are not verified at all (Kani has no thread support): every concurrent history of drops is ASSUMED equivalent to a sequential one (Arc\'s atomic count, linearizable channel).',
        note=ENVNOTE + '; threads not verified; termination of the collection loop not verified; channel receiver modelled with &mut access (unit gc)',
        explanation='exact reference count up to the despawn request (Kani, real Arc, <=3 clones; lemma L4); one collection drains all requests and removes every requested entity (Verus, unbounded); concurrency assumed'),
    'C16': dict(category='other', design_ref='DESIGN.md 5/C16 + 9.5',
        text='Function-level contracts: EntityLocal::{entity,get,get_mut} expose exactly the entity that caused the run and the local data attached to THAT entity, a write through get_mut lands on that entity\'s data and on no other, and the accessors are panic-free exactly inside a run of the reactor\'s own system (Verus, verbatim, generic in the reactor type); that every accessor DOES panic outside such a run, and the same exposure on the compiled code, is the Kani half (loop-free, value symbolic); the run\'s source comes from EntityReactionAccessTracker whose start claims the oldest entry parked for that system (Verus, verbatim, any length; Kani K.tracker.entity restates it for lists L<=3/5; lemma L1); cleanup_reactor_data(id, e) removes the local data iff e\'s registration list holds no entry of reactor id any more and leaves entities without list alone, for lists of ANY length (Verus, verbatim, `find` closure lifted by extraction rule 23; restated by Kani on the compiled code for lists L<=2, all contents); EntityReactors::{insert,remove,iter_reactors} (Kani); ReactorType::get_entity and ReactorMode::prepare (a world reactor is Persistent => never ref-counted => never collected) (Verus, verbatim). Verus (verbatim, generic in the reactor type): Reactor::{add,add_starting_triggers,remove,run} and EntityReactor::{add,remove,system} queue exactly a PERSISTENT registration / a revocation for THE system command held by the reactor\'s resource (no system is spawned, despawned or duplicated), EntityReactor::add attaches the local data first and does nothing for a missing entity, EntityReactor::remove queues one local-data cleanup per unique entity of the removed bundle. EntityCommands::add_world_reactor (extensions.rs) queues ONE call of a system that does exactly EntityReactor::add(this entity, data) - nothing conditional, nothing else (Verus; the trait-impl method emitted as a free function, its system closure lifted: extraction rules 27/28). Not covered: RevokeToken::iter_unique_entities itself (assumed), the App-level wrappers (add_world_reactor on App, add_entity_reactor), and "as last modified by earlier runs" across trees (runner).',
        note=ENVNOTE + '; Query::verif_single stands for a query over one entity',
        explanation='add/remove command contracts proved (Verus, generic); EntityLocal exposure and cleanup_reactor_data bounded/complete@shape (Kani); runner not covered'),
    'C12': dict(category='other', design_ref='DESIGN.md 5/C12',
        text='Verus proves on the verbatim text of command_queue.rs (all lengths) that the postponed-command buffer is FIFO (push appends, remove hands over everything in order, append concatenates, pop_front = head) and, with lemma L1 (unbounded, any interleaving), that parked event metadata is a per-system FIFO given the contract of *AccessTracker::start; that contract (claims the OLDEST entry of the system, the other entries keep their ORDER) is proved by Verus on the verbatim start() of all four trackers for parked lists of ANY length (the `position` closure lifted by extraction rule 17, `Iterator::position` read as the loop std documents), and restated by Kani on the compiled code for every content of parked lists of length 0..3 (quick) / 0..5 (thorough). The runner\'s replay (Verus; closure body verbatim, lifted by extraction rule 14; `VecDeque::retain` read as the loop std documents): the postponed entries that name the finished command are re-run front to back, each exactly once, with their own triple, and the entries that stay keep their relative order (spec kept_of); a command postponed by a nested run is appended at the END of the buffer (clause B). Level other, not proof: the whole-tree order (C09) is not claimed; std semantics of position / retain are assumed.',
        note=ENVNOTE + '; Vec/VecDeque specs of vstd; core::mem::replace assume_specification; std retain semantics assumed (visit order, kept iff true)',
        explanation='queue FIFO proved (Verus, unbounded); tracker prepare/start/end proved (Verus, unbounded; start restated by Kani per length L<=3/5); lemma L1 lifts the start contract to per-system FIFO for unbounded histories; runner replay step/order proved at function level (Verus)'),
    'C13': dict(category='other', design_ref='DESIGN.md 5/C13',
        text='A system command comes into being as ONE new entity carrying exactly the given callback (spawn_system_command_from / spawn_rc_system_command_from, Verus). Verus proves on verbatim text that SystemCommandStorage::take hands out exactly the stored callback and leaves None (so a second take while it is out yields None), and insert stores exactly its argument. Verus proves on the verbatim RawCallbackSystem / CallbackSystem::{initialize, run_with_cleanup, take_initialized} (generic; the `impl FnOnce(&mut World)` cleanup parameter replaced by an opaque stand-in, rule 19) the per-call cycle: a New system is initialised EXACTLY ONCE and then run, an Initialized one is run WITHOUT initialisation, and in both cases the slot afterwards holds Initialized(the same system value as the run left it) - so over ANY number of runs there is one initialisation and one instance; an Empty boxed slot runs only the cleanup. Kani restates this on the compiled code, with a stub System carrying its own run and initialize counters: over 2-3 consecutive runs `initialize` happens exactly once, every run is executed by the SAME instance (its private counter continues) and the system is stored back as Initialized after every run, for exclusive and non-exclusive systems. In syscommand_runner (Verus, verbatim) the callback is taken only on the run path (abort / postpone paths leave the storage alone) and, after the run and its garbage collection, the storage component of a target that still exists holds exactly THE callback that just ran, as the run left it (program-point obligation F); a target that lost its storage component is despawned, a target that is gone gets nothing back. The runner never returns while it holds a callback it took: every exit of the function - including exits a change adds - carries the ghost-state obligation G, so the system\'s persistent state cannot be dropped on an early return. Not covered: persistence across trees (opaque effects in between).',
        note=ENVNOTE + '; stub System = assumed contract of bevy System; Box<dyn FnMut> callbacks are opaque values in the Verus unit',
        explanation='storage take/insert and the runner\'s take-on-run-path / reinsert-the-same-callback obligations proved (Verus); one initialisation and instance identity over bounded run sequences (Kani)'),
    'C14': dict(category='other', design_ref='DESIGN.md 5/C14',
        text='Verus proves on the verbatim text, generically in the component / resource type: React::{get,get_noreact,take} and ReactResInner::{get_noreact,take} queue nothing; get_mut queues exactly one trigger (for the owning entity); set_if_neq(new) stores, returns the old value and queues one trigger iff new != old by the type\'s PartialEq, and otherwise changes and queues nothing. Kani, loop-free over the full u32 value domain on the real accessors against the stub Commands (counting queued commands): React::{get,get_noreact} and the ReactResMut read paths queue nothing; React::get_mut / ReactResMut::get_mut queue exactly one trigger command per call; set_if_neq(new): new == old => None, value unchanged, nothing queued; new != old => Some(old), value stored, exactly one trigger. The trigger itself: schedule_mutation_reaction / schedule_insertion_reaction queue exactly one command per matching registration for THIS entity and component type (Verus, verbatim, lists of any length; Kani restates it on the compiled code for bounded shapes), and schedule_insertion_reaction queues nothing for an entity that does not carry the component (despawned before apply). ReactiveMut (the query-level wrappers; Verus, verbatim, over a stand-in for the component query, under the representation invariant that a React<T> records the entity it is attached to): get_mut / single_mut queue exactly one trigger for the addressed entity and hand out exclusive access to ITS component, get_noreact queues nothing, set_if_neq / set_single_if_not_eq change exactly the addressed entity\'s component and queue one trigger iff the value changes; K.accessors.reactive_mut.* restates get_mut on the compiled code. Level other: Kani value-level clauses are complete per instantiation.',
        note=ENVNOTE + '; component/resource instantiated at a u32 newtype',
        explanation='accessor clauses complete@shape (Kani, loop-free, full value domain); dispatch of the trigger bounded (Kani)'),
    'C17': dict(category='other', design_ref='DESIGN.md 9.5',
        text='Function-level contracts on the three entry points, proved by Verus on the verbatim bodies, generically in the input / output / function types (no bound): spawned_syscall - a missing target (entity gone or without SpawnedSystem component) or a system that is currently running (its slot holds None) gives Err, nothing runs and nothing changes; otherwise the stored system is taken out of its slot for the duration of the call, run exactly once with the given input, its output returned, and the SAME system value as the run left it is stored back on the same entity iff it still exists. syscall_with_validation - the system cached under the key (I, O, S) is taken out, run exactly once, its output returned and the same value stored back under the same key, with no validation and no second initialisation; without a cached system, validation runs first, ONE system is built, initialised once, run and stored. named_syscall / named_syscall_direct - the system stored under the name is taken out of its slot, run exactly once, its pending commands applied before returning, and the same value stored back under the name; an unknown name makes named_syscall build-initialise-run-store one system and named_syscall_direct return Err without running anything or touching the table; other names are untouched. That a run applies the commands it queued before returning is discharged on the real CallbackSystem::run_with_cleanup / run_initialized_system by Kani (K.callbacks.*: cleanup, then apply_deferred, on every run); spawned_syscall on missing / running targets is restated by Kani on the compiled code. Level other: the system bodies, Bevy\'s System::run (= run + apply_deferred) and the resource / component stores are uninterpreted effects with assumed contracts; persistence over SEQUENCES of calls follows from the per-call contracts only by the (unproved here) induction over the call history; register_named_system_from stores the initialised system under the name (Verus); the thin wrappers (syscall, WorldSyscallExt, the Commands extensions, prep_fncall) are not under contract.',
        note=ENVNOTE + '; fn-pointer parameter `validation` replaced by an opaque stand-in type (extraction rule 19); closures normalized by rules 20/21',
        explanation='take-out / run-once / store-back-the-same-value proved per call for all three families (Verus, generic); command application before return by Kani on the callback runners; call histories and wrappers not covered'),
    'C18': dict(category='other', design_ref='DESIGN.md 5/C18',
        text='Function-level robustness contracts: Verus (verbatim, unbounded): revoke_reactor skips - does not abort on - token elements whose entity is gone and still processes all later elements; try_cleanup_data_entity is a no-op on a dead entity; cleanup_on_abort runs setup+cleanup whether or not the target exists; syscommand_runner takes the abort path - one cleanup_on_abort, no system run - exactly when the target entity is gone, has no storage, or its callback is out at the root; a postponed command is handed back to the runner whatever happened to its target in between (replay closure verbatim, lifted by extraction rule 14), so a target that died meanwhile reaches that abort path instead of being dropped silently. the register_despawn_reactor system does nothing at all for a target that died before the command was applied (Verus, unit despawn_reg). Kani (every reachable panic is a failed obligation): try_cleanup_data_entity on dead / counter-less entities, schedule_entity_event_reaction for a target without reactor list, tracker start without entry, revoke_* with absent key/id. Not covered: whole-tree histories (C02).',
        note=ENVNOTE,
        explanation='dead-target paths of revoke walk, payload cleanup and abort proved by Verus; no-panic/no-effect harnesses by Kani; runner not covered'),
}
PENDING = {
}
for k, v in NA.items():
    assert k not in PROPS


# end-to-end replays (replay/e2e/src/main.rs) attached to a property: scenarios of defects found earlier
E2E = {'C03': ['c03_nested_mix'], 'C12': ['c12_self_events'], 'C14': ['c14_dead_insert']}
