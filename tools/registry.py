"""Which obligations decide which property (single source for ./check, MANIFEST generation and evidence)."""
import re

# ---------------------------------------------------------------------------------------------------------------
# Verus units: template -> [(function-name regex, [properties])]   (function names as Verus reports them,
# without the crate prefix).  A function may serve several properties.
# ---------------------------------------------------------------------------------------------------------------
VERUS_UNITS = {
    'queue': {
        'template': 'queue.rs.tpl',
        'owners': [(r'.*', ['C12'])],
        'negctl': [  # (literal old, literal new, function expected to FAIL) applied to the generated file
            ('ensures final(self).commands@ == old(self).commands@ + new@,',
             'ensures final(self).commands@ == new@ + old(self).commands@,', 'CobwebCommandQueue::append'),
        ],
    },
    'counter': {
        'template': 'counter.rs.tpl',
        'owners': [(r'.*', ['C05'])],
        'negctl': [
            ('ensures b == (self.count == 0),', 'ensures b == (self.count == 1),', 'DataEntityCounter::is_done'),
        ],
    },
    'trackers': {
        'template': 'trackers.rs.tpl',
        'owners': [
            (r'.*::prepare$', ['C03', 'C12']),
            (r'.*::end$', ['C03', 'C04']),
            (r'.*::(is_reacting|data_entity|system|source|reaction_type)$', ['C03', 'C04']),
            (r'.*::default$', ['C03', 'C04']),
            (r'lemma_.*', ['C03', 'C12']),
        ],
        'negctl': [
            ('ensures !final(self).currently_reacting,\n        final(self).reactor_handle is None,',
             'ensures !final(self).currently_reacting,\n        final(self).reactor_handle is Some,', 'DespawnAccessTracker::end'),
        ],
    },
    'handles': {
        'template': 'handles.rs.tpl',
        'owners': [
            (r'ReactorHandle::sys_command$', ['C01', 'C06', 'C07']),
            (r'ReactorType::get_entity$', ['C16', 'C06']),
            (r'ReactorMode::prepare$', ['C07', 'C16']),
            (r'SystemCommandStorage::.*', ['C13']),
            (r'check_take_insert_roundtrip$', ['C13']),
            (r'SystemEventData::.*', ['C04']),
            (r'check_take_at_most_once$', ['C04']),
        ],
        'negctl': [
            ('ensures r == old(self).callback, final(self).callback is None,',
             'ensures r == old(self).callback, final(self).callback is Some,', 'SystemCommandStorage::take'),
        ],
    },
    'lemmas': {
        'template': 'lemmas.rs.tpl',
        'owners': [
            (r'lemma_(first_idx|count_cons|count_remove|register|revoke|single_registration_revoked|history)$', ['C01', 'C06']),
            (r'lemma_refcount_exact$', ['C07', 'C10']),
        ],
        'negctl': [
            ('else if st.0 == 1 { (0, st.1 + 1) }', 'else if st.0 == 1 { (0, st.1 + 2) }', 'lemma_refcount_exact'),
        ],
    },
}


def verus_units_for(prop):
    out = {}
    for unit, u in VERUS_UNITS.items():
        pats = [rx for rx, props in u['owners'] if prop in props]
        if pats:
            out[unit] = pats
    return out


def verus_owned(unit, prop, fname):
    for rx, props in VERUS_UNITS[unit]['owners']:
        if prop in props and re.match(rx + r'\Z', fname):
            return True
    return False


# ---------------------------------------------------------------------------------------------------------------
# Per-property claim text (level, notes).  Kani harnesses are attached through the `//# ... props=` annotations in
# contracts/kani/*.rs (tools/kani_run.parse_annotations).
# ---------------------------------------------------------------------------------------------------------------
PROPS = {}
