"""Item-level cutter for Rust source text (no parsing beyond token skipping + brace matching).

Used by the Verus extraction (E1): function bodies are copied byte-for-byte; the only edits are the ones
listed in DROP_RULES / documented in DESIGN.md section 3.1.
"""
import re


class CutError(Exception):
    """Anchor not found / cannot cut: reported as UNDECIDED lost-anchor (exit 2), never as a violation."""


def _skip_trivia(src, i):
    """If src[i:] starts a comment / string / char literal, return index after it, else None."""
    n = len(src)
    c = src[i]
    if c == '/' and i + 1 < n:
        if src[i + 1] == '/':
            j = src.find('\n', i)
            return n if j < 0 else j
        if src[i + 1] == '*':
            depth, j = 1, i + 2
            while j < n and depth:
                if src.startswith('/*', j):
                    depth += 1; j += 2
                elif src.startswith('*/', j):
                    depth -= 1; j += 2
                else:
                    j += 1
            return j
    if c == '"':
        j = i + 1
        while j < n:
            if src[j] == '\\':
                j += 2; continue
            if src[j] == '"':
                return j + 1
            j += 1
        return n
    if c == 'r' and i + 1 < n and src[i + 1] in '#"' and (i == 0 or not (src[i - 1].isalnum() or src[i - 1] == '_')):
        m = re.match(r'r(#*)"', src[i:])
        if m:
            close = '"' + m.group(1)
            j = src.find(close, i + len(m.group(0)))
            return n if j < 0 else j + len(close)
    if c == "'":
        # char literal or lifetime
        m = re.match(r"'(\\.[^']*|[^'\\])'", src[i:])
        if m:
            return i + len(m.group(0))
        m = re.match(r"'[A-Za-z_][A-Za-z0-9_]*", src[i:])
        if m:
            return i + len(m.group(0))
    return None


def match_close(src, i, open_ch='{', close_ch='}'):
    """src[i] == open_ch; returns index of the matching close_ch."""
    assert src[i] == open_ch, (src[i:i + 20], open_ch)
    depth, j, n = 0, i, len(src)
    while j < n:
        k = _skip_trivia(src, j)
        if k is not None:
            j = k; continue
        c = src[j]
        if c == open_ch:
            depth += 1
        elif c == close_ch:
            depth -= 1
            if depth == 0:
                return j
        j += 1
    raise CutError('unbalanced %s at %d' % (open_ch, i))


def code_positions(src, start=0, end=None):
    """Yield (index, brace_depth) for every code character (outside comments/strings), depth relative to start."""
    end = len(src) if end is None else end
    j, depth = start, 0
    while j < end:
        k = _skip_trivia(src, j)
        if k is not None:
            j = k; continue
        c = src[j]
        if c == '}':
            depth -= 1
        yield j, depth
        if c == '{':
            depth += 1
        j += 1


def _find_at_depth(src, regex, start, end, depth_wanted):
    """First match of regex (compiled) beginning at a code position with brace depth == depth_wanted."""
    for j, d in code_positions(src, start, end):
        if d != depth_wanted:
            continue
        if j > start and (src[j - 1].isalnum() or src[j - 1] == '_'):
            continue
        m = regex.match(src, j)
        if m:
            return m
    return None


def _leading_attrs_start(src, pos, floor):
    """Start of the item = start of pos's line, extended upwards over `#[..]` attribute and `///` doc lines."""
    ls = src.rfind('\n', floor, pos)
    start = ls + 1 if ls >= 0 else floor
    if src[start:pos].strip() != '':
        return pos  # something else precedes on the same line; do not extend
    while start > floor:
        pls = src.rfind('\n', floor, start - 1)
        pstart = pls + 1 if pls >= 0 else floor
        pline = src[pstart:start - 1].strip()
        if pline.startswith('#[') or pline.startswith('///'):
            start = pstart
        else:
            break
    return start


VIS = r'(?:pub(?:\s*\([^)]*\))?\s+)?'


def cut_type(src, kind, name):
    """Cut `struct|enum NAME ... {...}` or `...;` at depth 0 (attributes included). Returns (attrs, header, body)."""
    rx = re.compile(VIS + r'(?:%s)\s+%s\b' % (kind, re.escape(name)))
    m = _find_at_depth(src, rx, 0, len(src), 0)
    if not m:
        raise CutError('%s %s not found' % (kind, name))
    # find first '{' or ';' or '(' (tuple struct) after the match at code level
    j = m.end()
    brace = None
    for k, d in code_positions(src, j):
        if src[k] in '{;(' and d == 0:
            brace = k; break
    if brace is None:
        raise CutError('no body for %s %s' % (kind, name))
    if src[brace] == '{':
        end = match_close(src, brace) + 1
    elif src[brace] == '(':
        close = match_close(src, brace, '(', ')')
        semi = src.find(';', close)
        end = semi + 1
    else:
        end = brace + 1
    astart = _leading_attrs_start(src, m.start(), 0)
    return src[astart:m.start()], src[m.start():end]


def _norm(s):
    return re.sub(r'\s+', ' ', s).strip()


def find_impl(src, anchor):
    """anchor: 'impl Type' (inherent) or 'impl Trait for Type'. Returns (header_text, open_brace_idx, close_idx)."""
    want = _norm(anchor)
    m_for = re.match(r'impl\s+(.+?)\s+for\s+(\S+)$', want)
    rx = re.compile(r'impl\b')
    pos = 0
    while True:
        m = _find_at_depth(src, rx, pos, len(src), 0)
        if not m:
            raise CutError('%s not found' % anchor)
        # header up to '{' at depth 0
        ob = None
        for k, d in code_positions(src, m.start()):
            if src[k] == '{' and d == 0:
                ob = k; break
        if ob is None:
            raise CutError('impl without body')
        header = src[m.start():ob]
        h = _norm(header)
        # strip generics after impl
        h2 = re.sub(r'^impl\s*<', 'impl<', h)
        if h2.startswith('impl<'):
            depth, i = 0, 4
            while i < len(h2):
                if h2[i] == '<': depth += 1
                elif h2[i] == '>':
                    depth -= 1
                    if depth == 0:
                        break
                i += 1
            h2 = 'impl ' + h2[i + 1:].strip()
        h2 = h2.split(' where ')[0].strip()
        def base(t):
            return re.sub(r'<.*$', '', t.strip())
        ok = False
        if m_for:
            mm = re.match(r'impl\s+(.+?)\s+for\s+(.+)$', h2)
            if mm and base(mm.group(1)) == base(m_for.group(1)) and base(mm.group(2)) == base(m_for.group(2)):
                ok = True
        else:
            if ' for ' not in h2:
                t = h2[len('impl'):].strip()
                if base(t) == base(want[len('impl'):]):
                    ok = True
        close = match_close(src, ob)
        if ok:
            return header, ob, close
        pos = close + 1


def find_impls(src, anchor):
    """All impl blocks matching anchor (a type may have several inherent impls)."""
    out, off = [], 0
    while True:
        try:
            header, ob, close = find_impl(src[off:], anchor)
        except CutError:
            break
        out.append((header, ob + off, close + off))
        off = close + off + 1
    if not out:
        raise CutError('%s not found' % anchor)
    return out


def cut_fn(src, name, start=0, end=None, depth=0):
    """Cut `fn NAME` at the given brace depth within [start,end). Returns dict(attrs, sig, body, span)."""
    end = len(src) if end is None else end
    rx = re.compile(VIS + r'(?:const\s+)?(?:unsafe\s+)?fn\s+%s\b' % re.escape(name))
    m = _find_at_depth(src, rx, start, end, depth)
    if not m:
        raise CutError('fn %s not found' % name)
    # signature ends at first '{' at paren depth 0 / same brace depth
    ob = None
    pd = 0
    for k, d in code_positions(src, m.start(), end):
        c = src[k]
        if c in '([':
            pd += 1
        elif c in ')]':
            pd -= 1
        elif c == '{' and pd == 0 and d == depth:
            ob = k; break
        elif c == ';' and pd == 0 and d == depth:
            raise CutError('fn %s has no body' % name)
    if ob is None:
        raise CutError('fn %s: body not found' % name)
    close = match_close(src, ob)
    astart = _leading_attrs_start(src, m.start(), start)
    return {'attrs': src[astart:m.start()], 'sig': src[m.start():ob], 'body': src[ob:close + 1],
            'span': (astart, close + 1)}


def line_of(src, idx):
    return src.count('\n', 0, idx) + 1


# ---------------------------------------------------------------------------------------------------------------
# drop rules (DESIGN 3.1): whole statements only
# ---------------------------------------------------------------------------------------------------------------
DROP_MACROS = ['tracing::error', 'tracing::warn', 'tracing::debug', 'tracing::info', 'tracing::trace',
               'warn_once', 'debug_assert']


def drop_statements(body):
    """Remove `NAME!(...);` statements for NAME in DROP_MACROS. Returns (new_body, dropped list)."""
    dropped = []
    out = []
    j, n = 0, len(body)
    last = 0
    while j < n:
        k = _skip_trivia(body, j)
        if k is not None:
            j = k; continue
        hit = None
        if j == 0 or not (body[j - 1].isalnum() or body[j - 1] in '_:'):
            for name in DROP_MACROS:
                if body.startswith(name + '!', j):
                    hit = name; break
        if hit:
            p = j + len(hit) + 1
            while p < n and body[p].isspace():
                p += 1
            if p < n and body[p] == '(':
                close = match_close(body, p, '(', ')')
                q = close + 1
                while q < n and body[q] in ' \t':
                    q += 1
                if q < n and body[q] == ';':
                    out.append(body[last:j])
                    dropped.append(_norm(body[j:q + 1]))
                    last = q + 1
                    j = q + 1
                    continue
        j += 1
    out.append(body[last:])
    return ''.join(out), dropped
