#!/usr/bin/env python3
"""Run the registered checks against the seeded property-breaking changes of /verif/seeded.
For each seed: a scratch git worktree of /repo HEAD (under /tmp) gets the seed's patch.diff applied; the check of the
seed's own property (and, with --all, of every claimed property) is run with VERIF_REPO pointing at that worktree and
VERIF_OUT at a scratch directory (so that /verif/evidence is not touched); the worktree is removed afterwards.
Writes seeded/RESULTS.json: per seed, per property: exit code, VIOLATION lines, failed obligations.
usage: tools/seed_eval.py [--all] [--jobs N] [--tier quick] [seed-id ...]"""
import concurrent.futures as cf, json, os, re, shutil, subprocess, sys, time
VERIF = os.path.dirname(os.path.dirname(os.path.abspath(__file__)))
sys.path.insert(0, os.path.join(VERIF, 'tools'))
import registry

def run_seed(seed, props, tier, sub=''):
    d = '/tmp/se_' + seed
    subprocess.run(['git', '-C', '/repo', 'worktree', 'remove', '--force', d], capture_output=True)
    shutil.rmtree(d, ignore_errors=True)
    r = subprocess.run(['git', '-C', '/repo', 'worktree', 'add', '--detach', d, 'HEAD'], capture_output=True, text=True)
    if r.returncode != 0:
        return seed, {'error': r.stderr[-300:]}
    out = {}
    try:
        r = subprocess.run(['git', '-C', d, 'apply', os.path.join(VERIF, 'seeded', sub, seed, 'patch.diff')], capture_output=True, text=True)
        if r.returncode != 0:
            return seed, {'error': 'patch does not apply: ' + r.stderr[-300:]}
        for p in props:
            scratch = '/tmp/se_out_%s_%s' % (seed, p)
            shutil.rmtree(scratch, ignore_errors=True)
            env = dict(os.environ, VERIF_REPO=d, VERIF_OUT=scratch, VERIF_TAG='-' + seed)
            t0 = time.time()
            r = subprocess.run([os.path.join(VERIF, 'check'), p, '--tier', tier], cwd=VERIF, env=env, capture_output=True, text=True)
            viol = [l for l in r.stdout.splitlines() if l.startswith('VIOLATION')]
            und = [l for l in r.stdout.splitlines() if l.startswith('UNDECIDED')]
            out[p] = {'exit': r.returncode, 'wall_s': round(time.time() - t0, 1),
                      'violations': [re.sub(r'replay=\S+', 'replay=...', v) for v in viol][:12], 'undecided': und[:6],
                      'summary': [l for l in r.stdout.splitlines() if re.match(r'C\d+ (quick|thorough):', l)]}
            shutil.rmtree(scratch, ignore_errors=True)
            shutil.rmtree(os.path.join(VERIF, '.work', '%s-%s-%s' % (p, tier, seed)), ignore_errors=True)
    finally:
        subprocess.run(['git', '-C', '/repo', 'worktree', 'remove', '--force', d], capture_output=True)
        shutil.rmtree(d, ignore_errors=True)
    return seed, out

def main():
    args = sys.argv[1:]
    if '--harmless' in args:
        return harmless(args)
    all_props = '--all' in args
    jobs = int(args[args.index('--jobs') + 1]) if '--jobs' in args else 2
    tier = args[args.index('--tier') + 1] if '--tier' in args else 'quick'
    names = [a for a in args if re.match(r'C\d+-[a-h]$', a)]
    seeds = sorted(d for d in os.listdir(os.path.join(VERIF, 'seeded')) if re.match(r'C\d+-[a-h]$', d))
    if names:
        seeds = [s for s in seeds if s in names]
    claimed = sorted(registry.PROPS)
    res_path = os.path.join(VERIF, 'seeded', 'RESULTS.json')
    results = json.load(open(res_path)) if os.path.exists(res_path) else {}
    mine = {}
    with cf.ThreadPoolExecutor(max_workers=jobs) as ex:
        futs = []
        for s in seeds:
            own = s.split('-')[0]
            props = claimed if all_props else ([own] if own in claimed else [])
            meta = json.load(open(os.path.join(VERIF, 'seeded', s, 'meta.json')))
            extra = [p for p in meta.get('also_check', []) if p in claimed and p not in props]
            if not props and not extra:
                results[s] = {'note': 'property %s is not claimed (not_applicable); no check to run' % own}
                continue
            futs.append(ex.submit(run_seed, s, props + extra, tier))
        for f in cf.as_completed(futs):
            s, out = f.result()
            mine[s] = out
            # merge-on-write: another evaluation may be writing the same file
            results = json.load(open(res_path)) if os.path.exists(res_path) else {}
            results.update(mine)
            caught = [p for p, v in out.items() if isinstance(v, dict) and v.get('exit') == 1]
            print('%s: %s' % (s, {p: (v.get('exit') if isinstance(v, dict) else v) for p, v in out.items()}), 'CAUGHT by ' + ','.join(caught) if caught else 'not caught', flush=True)
            json.dump(results, open(res_path, 'w'), indent=1, sort_keys=True)
    results = json.load(open(res_path)) if os.path.exists(res_path) else {}
    results.update(mine)
    json.dump(results, open(res_path, 'w'), indent=1, sort_keys=True)

def harmless(args):
    """Changes that do NOT break any property (seeded/harmless/*): every listed check must stay at exit 0."""
    tier = 'quick'
    base = os.path.join(VERIF, 'seeded', 'harmless')
    res_path = os.path.join(base, 'RESULTS.json')
    results = {}
    for s in sorted(os.listdir(base)):
        if not os.path.isdir(os.path.join(base, s)):
            continue
        meta = json.load(open(os.path.join(base, s, 'meta.json')))
        _, out = run_seed(s, [p for p in meta['check'] if p in registry.PROPS], tier, sub='harmless')
        results[s] = out
        alarms = [p for p, v in out.items() if isinstance(v, dict) and v.get('exit') == 1]
        print('%s: %s %s' % (s, {p: (v.get('exit') if isinstance(v, dict) else v) for p, v in out.items()}, 'FALSE ALARM in ' + ','.join(alarms) if alarms else 'no alarm'), flush=True)
        json.dump(results, open(res_path, 'w'), indent=1, sort_keys=True)


if __name__ == '__main__':
    main()
