#!/bin/bash
# usage: seed_validate.sh <Cxx> <variant> [worktree prefix=/tmp/seed_] [store as variant]  -- validates /tmp/seed_<Cxx>/SEED/<variant> in that worktree and, if all three
# confirmations hold, stores it under /verif/seeded/<Cxx>-<variant>/ . Confirmations: (i) patch only -> suite passes (81);
# (ii) patch+demo -> demo fails; (iii) demo only -> all pass.
id=$1; v=$2; pre=${3:-/tmp/seed_}; as=${4:-$v}; d=$pre$id; s=$d/SEED/$v
cd $d || exit 3
export CARGO_NET_OFFLINE=true
clean() { git checkout -q -- . ; git clean -fdq src tests; }
run() { cargo test --workspace --offline --no-fail-fast 2>&1; }
sum() { grep -E '^test result' | awk '{p+=$4; f+=$6} END {print p" passed "f" failed"}'; }
clean
git apply $s/patch.diff || { echo "$id-$v: patch does not apply"; exit 1; }
r1=$(run | sum)
git apply $s/demo.diff 2>/dev/null || { for f in $s/*.rs; do :; done; }
if ! git status --short | grep -q tests; then echo "$id-$v: demo.diff did not apply"; clean; exit 1; fi
out2=$(run); r2=$(echo "$out2" | sum); failed2=$(echo "$out2" | grep -E '^test .* FAILED' | head -5 | tr '\n' ';')
clean
git apply $s/demo.diff
r3=$(run | sum)
clean
echo "$id-$v: patch-only: $r1 | patch+demo: $r2 [$failed2] | demo-only: $r3"
ok=1
[[ "$r1" == "81 passed 0 failed" ]] || ok=0
[[ "$r2" == *" 0 failed" ]] && ok=0
[[ "$r3" == *" 0 failed" ]] || ok=0
if [ $ok = 1 ]; then
  t=/verif/seeded/$id-$as; mkdir -p $t; cp $s/patch.diff $s/demo.diff $t/
  python3 - "$s/meta.json" "$t/meta.json" "$r1" "$r2" "$failed2" "$r3" <<'P'
import json,sys
try: m=json.load(open(sys.argv[1]))
except Exception as e: m={'meta_unreadable':str(e)}
m['confirmed_by_me']={'patch_only_suite':sys.argv[3],'patch_plus_demo':sys.argv[4],'failing_demo_tests':sys.argv[5],'demo_only':sys.argv[6],
  'how':'tools/seed_validate.sh in a scratch worktree of /repo HEAD: cargo test --workspace --offline --no-fail-fast'}
json.dump(m,open(sys.argv[2],'w'),indent=1)
P
  echo "$id-$v: CONFIRMED -> $t"
else echo "$id-$v: NOT confirmed"; fi
