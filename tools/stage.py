"""E2: staged copy of the repo crate for the Kani tier.

`/repo/src`, `/repo/tests`, `/repo/README.md`, `/repo/bevy_cobweb_derive` are copied byte-for-byte from the CURRENT
working tree; then, for every file `contracts/kani/<path with / -> __>.rs`, ONE line is appended to the copied
source file:   #[cfg(kani)] #[path = "<abs contract file>"] pub(crate) mod verif_contracts;
(a child module sees the private items of the file it is appended to). The crate manifest points bevy /
crossbeam / tracing at the assumed environment in /verif/env.
"""
import hashlib
import os
import shutil
import subprocess
import sys

VERIF = os.path.dirname(os.path.dirname(os.path.abspath(__file__)))
REPO = os.environ.get('VERIF_REPO', '/repo')

CARGO_TOML = '''[package]
name = "bevy_cobweb"
version = "0.0.0"
edition = "2021"
[lib]
path = "src/lib.rs"
doctest = false
[features]
track_change_detection = []
[dependencies]
bevy = {{ path = "{env}/bevy" }}
crossbeam = {{ path = "{env}/crossbeam" }}
tracing = {{ path = "{env}/tracing" }}
smallvec = {{ path = "{env}/smallvec", features = ["drain_filter"] }}
bevy_cobweb_derive = {{ path = "bevy_cobweb_derive" }}
[lints.rust]
unexpected_cfgs = {{ level = "allow" }}
[[test]]
name = "tests"
path = "tests/test/mod.rs"
[workspace]
[profile.dev]
debug = 0
debug-assertions = false
overflow-checks = true
'''


class StageError(Exception):
    pass


def contract_files():
    d = os.path.join(VERIF, 'contracts', 'kani')
    out = {}
    for f in sorted(os.listdir(d)):
        if f.endswith('.rs') and '__' in f:
            rel = f[:-3].replace('__', '/') + '.rs'     # src__react__utils.rs -> src/react/utils.rs
            out[rel] = os.path.join(d, f)
    return out


def stage(tag):
    """Create /verif/.work/<tag>/stage from the current /repo working tree. Returns (dir, info)."""
    root = os.path.join(VERIF, '.work', tag, 'stage')
    if os.path.exists(root):
        shutil.rmtree(root)
    os.makedirs(root)
    for name in ('src', 'tests', 'bevy_cobweb_derive'):
        p = os.path.join(REPO, name)
        if not os.path.isdir(p):
            raise StageError('missing %s' % p)
        shutil.copytree(p, os.path.join(root, name), ignore=shutil.ignore_patterns('target'))
    shutil.copy(os.path.join(REPO, 'README.md'), os.path.join(root, 'README.md'))
    # the derive crate must not look for the repo workspace
    dct = os.path.join(root, 'bevy_cobweb_derive', 'Cargo.toml')
    info = {'files': {}, 'appended': []}
    for dp, _, fs in os.walk(os.path.join(root, 'src')):
        for f in fs:
            p = os.path.join(dp, f)
            rel = os.path.relpath(p, root)
            info['files'][rel] = hashlib.sha256(open(p, 'rb').read()).hexdigest()
    cdir = os.path.join(root, 'verif_contracts')
    os.makedirs(cdir)
    src_cdir = os.path.join(VERIF, 'contracts', 'kani')
    for f in os.listdir(src_cdir):
        if f.endswith('.inc'):
            shutil.copy(os.path.join(src_cdir, f), os.path.join(cdir, f))
    for rel, cpath in contract_files().items():
        p = os.path.join(root, rel)
        if not os.path.exists(p):
            raise StageError('append point lost: %s' % rel)
        staged = os.path.join(cdir, os.path.basename(cpath))
        shutil.copy(cpath, staged)
        with open(p, 'a') as fh:
            fh.write('\n#[cfg(kani)] #[path = "%s"] pub(crate) mod verif_contracts;\n' % staged)
        info['appended'].append(rel)
    with open(os.path.join(root, 'Cargo.toml'), 'w') as fh:
        fh.write(CARGO_TOML.format(env=os.path.join(VERIF, 'env')))
    os.makedirs(os.path.join(root, '.cargo'), exist_ok=True)
    with open(os.path.join(root, '.cargo', 'config.toml'), 'w') as fh:
        fh.write('[net]\noffline = true\n[build]\ntarget-dir = "%s"\n' % os.path.join(VERIF, '.work', 'target'))
    lock = os.path.join(VERIF, 'env', 'stage.Cargo.lock')
    if os.path.exists(lock):
        shutil.copy(lock, os.path.join(root, 'Cargo.lock'))
    return root, info


if __name__ == '__main__':
    r, i = stage(sys.argv[1] if len(sys.argv) > 1 else 'manual')
    print(r)
